---------------------------- MODULE Trace_Faults ----------------------------
(***************************************************************************)
(* Verdicts on compiled fault scenarios (C05).  An observation carries the *)
(* scenario, the compiler's outcome (st: ok / syntax / compile / crash,    *)
(* cat: error category or SYNTAX, line: line of the reported position, 0   *)
(* if none) and the line numbers the harness knows from building the text: *)
(* inj1, inj2 (first and last line a diagnostic may point at under the     *)
(* "line"/"pair" rules; under "span" inj1 is the first line of the         *)
(* routine) and endline (the last line of the routine the fault is in).    *)
(***************************************************************************)
EXTENDS Faults, TLC, Json, IOUtils

Obs == JsonDeserialize(IOEnv.OBS)
\* sites of generated host programs (any routine, any block stack), computed by the harness from the generator's line facts
Extra == JsonDeserialize(IOEnv.SITES)
SiteOf(n) == IF \E s \in Sites : s.name = n THEN CHOOSE s \in Sites : s.name = n
             ELSE LET i == CHOOSE k \in 1..Len(Extra) : Extra[k].name = n IN Extra[i]

Allowed(rule, o) == CASE rule = "line" -> {o.inj1}
                      [] rule = "pair" -> o.inj1..o.inj2
                      [] OTHER -> o.inj1..o.endline

Verdict(o) ==
    LET e == Expect(o.fault, SiteOf(o.site)) IN
    IF o.st = "crash" THEN "crashed"
    ELSE IF e.accept THEN (IF o.st = "ok" THEN "ok" ELSE "valid-program-rejected")
    ELSE IF o.st = "ok" THEN "accepted"
    ELSE IF o.cat \notin e.cats THEN "category"
    ELSE IF o.line = 0 THEN "no-position"
    ELSE IF o.line \notin Allowed(e.rule, o) THEN "position"
    ELSE "ok"

VARIABLE i
Init == i = 1
Next == i <= Len(Obs) /\ PrintT(ToJson([id |-> Obs[i].id, v |-> Verdict(Obs[i])])) /\ i' = i + 1
Spec == Init /\ [][Next]_i
=============================================================================
