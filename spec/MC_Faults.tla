----------------------------- MODULE MC_Faults -----------------------------
(***************************************************************************)
(* All scenarios of Faults.tla: fault x site x noise before the fault x    *)
(* optimisation level x debug setting.  TLC prints each with what the      *)
(* compiler owes (accept, or reject with one of the categories within the  *)
(* line rule) and checks that the catalogue is not vacuous.                *)
(***************************************************************************)
EXTENDS Faults, TLC, Json

CONSTANTS Levels, Debugs       \* e.g. {0,1,2}, {FALSE, TRUE}
VARIABLE sc
Names == {c.name : c \in Catalogue}
Init == sc \in [fault : Names, site : {s.name : s \in Sites}, noise : Noises, O : Levels, g : Debugs]
Next == UNCHANGED sc
Spec == Init /\ [][Next]_sc

SiteOf(n) == CHOOSE s \in Sites : s.name = n
Report == LET e == Expect(sc.fault, SiteOf(sc.site))
          IN PrintT(ToJson([sc |-> sc, accept |-> e.accept, cats |-> e.cats, rule |-> e.rule]))

\* every catalogue entry violates its rule somewhere, the host alone is valid everywhere,
\* and every legal placement is of a construct whose legality depends on the site
NonVacuous == /\ \A f \in Names \ {"none"} : \E s \in Sites : ~LegalAt(f, s)
              /\ \A s \in Sites : LegalAt("none", s)
              /\ \A f \in Names \ {"none"} : (\E s \in Sites : LegalAt(f, s)) => (\E s \in Sites : ~LegalAt(f, s))
=============================================================================
