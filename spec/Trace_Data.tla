------------------------------ MODULE Trace_Data ------------------------------
(* Trace validation for READ / RESTORE.  A case = the DATA layout of the       *)
(* program (as written in the source) and the recorded operations:             *)
(*   [k |-> "read", a |-> type, out |-> "value"|"trap", trap |-> name, v |-> value] *)
(*   [k |-> "restore", a |-> label, ...]                                        *)
(* Each event must be a step of Data.tla's machine; the verdict names the      *)
(* failing clause.                                                              *)
EXTENDS Data, TLC, Json, IOUtils
Cases == JsonDeserialize(IOEnv.CASES)

VARIABLES cid, l, verdict
vars == <<cid, l, verdict, cursor, status, lastval>>
C == Cases[cid]
Ev == C.ev[l]
Lay == C.layout

Init == cid \in 1..Len(Cases) /\ l = 1 /\ verdict = "run" /\ DInit

ValOK(sv, ov, t) == \/ sv[1] = "skip"
                    \/ sv[1] = "I" /\ ov[1] = "I" /\ sv[2] = ov[2]
                    \/ sv[1] = "T" /\ ov[1] = "T" /\ sv[2] = ov[2]
                    \/ sv[1] = "F" /\ ov[1] = "F" /\ sv[2] = ov[2] /\ sv[3] = ov[3] /\ sv[4] = ov[4]
                    \* SINGLE keeps about 7 digits: values with more than 6 are not compared
                    \/ sv[1] = "F" /\ t = "S" /\ sv[3] > 999999

Stop(v) == verdict' = v /\ UNCHANGED <<cid, l, cursor, status, lastval>>
Go == l' = l + 1 /\ UNCHANGED <<cid, verdict>>

Step ==
  /\ verdict = "run"
  /\ IF l > Len(C.ev) THEN Stop("ok")
     ELSE IF Ev.k = "restore" THEN
          IF status # "run" THEN Stop("op-after-error")
          ELSE Restore(Lay, Ev.a) /\ Go
     ELSE IF Ev.k = "read" THEN
          IF status # "run" THEN Stop("op-after-error")
          ELSE IF cursor > Len(Flat(Lay)) THEN
               IF Ev.out = "trap" /\ Ev.trap = "DEVICE_ERROR" THEN Read(Lay, Ev.a) /\ Go
               ELSE Stop("out-of-data")
          ELSE LET r == ReadItem(Flat(Lay)[cursor], Ev.a) IN
               IF Ev.out = "trap" THEN
                    IF r[1] = "value" THEN Stop("spurious-error")
                    ELSE /\ status' = "bad-item" /\ lastval' = <<"none">> /\ UNCHANGED cursor /\ Go
               ELSE IF Ev.out = "value" THEN
                    IF r[1] = "error" THEN Stop("missing-error")
                    ELSE IF Ev.ty # Ev.a THEN Stop("type")
                    ELSE IF ~ValOK(r[2], Ev.v, Ev.a) THEN Stop("value")
                    ELSE /\ cursor' = cursor + 1 /\ lastval' = r[2] /\ UNCHANGED status /\ Go
               ELSE Stop("host-exception")
     ELSE Stop("unknown-event")

Spec == Init /\ [][Step]_vars
Report == verdict # "run" => PrintT(ToJson([tid |-> C.tid, verdict |-> verdict, l |-> l]))
=============================================================================
