"""C17  PRINT layout.  Spec: Print.tla.

1. MC_Print: TLC explores the protocol machine over a pool of items (all
   sequences of <= N items) with its invariants, and prints every complete
   behaviour <item sequence, text>.
2. spec -> code: every behaviour becomes a PRINT statement (items as literals,
   through variables in a SUB, as computed expressions / function results in a
   loop), compiled in the six configurations and run; the text handed to the
   terminal must be the behaviour's text.
3. code -> spec: random long item lists are run through the real compiler + VM,
   and Trace_Print validates <items, observed text> step by step.
"""
import json
import os
import random

from lib import tlc, par
from lib.common import Machinery

LEVEL = 'model_checking'


def S(s):
    return [ord(c) for c in s]


def make_pool(tier):
    p = []

    def num(t, v, lit, txt=None, name=None):
        p.append({'k': 'num', 't': t, 'v': v, 'b': S(txt) if txt else [], 'lit': lit})

    def st(s):
        p.append({'k': 'str', 't': 'T', 'v': 0, 'b': S(s), 'lit': '"%s"' % s})
    num('I', 0, '0')
    num('I', -5, '-5')
    num('I', 32767, '32767')
    num('L', 100000, '100000')
    num('L', -2147483647, '-2147483647')
    num('S', 1, '1.5', '1.5')
    num('S', -1, '-2.25', '2.25')
    num('D', 1, '1234.5#', '1234.5')
    st('')
    st('a')
    st('ABCDEFGHIJKLM')          # 13
    st('abcdefghijklmn')         # 14
    st('abcdefghijklmno')        # 15
    p.append({'k': 'semi', 't': '', 'v': 0, 'b': [], 'lit': ';'})
    p.append({'k': 'comma', 't': '', 'v': 0, 'b': [], 'lit': ','})
    if tier == 'thorough':
        num('I', -32768, '-32768')
        num('L', 2147483647, '2147483647')
        st('x' * 30)
        st(' ')
    return p


SUFFIX = {'I': '%', 'L': '&', 'S': '!', 'D': '#', 'T': '$'}


def render_stmt(items, variant, pool_idx):
    """items: pool entries; variant 0 literal, 1 variable, 2 expression."""
    out = []
    for it, pi in zip(items, pool_idx):
        if it['k'] in ('semi', 'comma'):
            out.append(it['lit'])
            continue
        if variant == 0:
            out.append(it['lit'])
        elif variant == 1:
            out.append('v%d%s' % (pi, SUFFIX[it['t']]))
        else:
            v = 'v%d%s' % (pi, SUFFIX[it['t']])
            if it['t'] == 'T':
                out.append(['"" + %s' % v, 'idt$(%s)' % v, 'LEFT$(%s + "zz", LEN(%s))' % (v, v)][pi % 3])
            elif it['t'] in ('I', 'L'):
                if it['v'] > 0:
                    out.append(['(%s - 1) + 1' % v, 'id%s%s(%s)' % (it['t'].lower(), SUFFIX[it['t']], v)][pi % 2])
                else:
                    out.append(['(%s + 1) - 1' % v, 'id%s%s(%s)' % (it['t'].lower(), SUFFIX[it['t']], v)][pi % 2])
            else:
                out.append(['%s * 1' % v, 'id%s%s(%s)' % (it['t'].lower(), SUFFIX[it['t']], v)][pi % 2])
    # juxtaposed expressions need a separator in the source; the model's item
    # sequences never contain two adjacent non-separators (see Choose filter)
    return 'PRINT ' + ' '.join(out) if out else 'PRINT'


def adjacent_values(items):
    for a, b in zip(items, items[1:]):
        if a['k'] in ('num', 'str') and b['k'] in ('num', 'str'):
            return True
    return False


def build_program(pool, seqs, variant):
    """seqs: list of pool-index lists.  Returns (text, repeat) where repeat is
    how often each statement's text is expected."""
    lines = []
    decl = []
    for i, it in enumerate(pool):
        if it['k'] in ('num', 'str'):
            decl.append('v%d%s' % (i, SUFFIX[it['t']]))
    stmts = [render_stmt([pool[i] for i in s], variant, s) for s in seqs]
    if variant == 0:
        lines += stmts
        rep = 1
    elif variant == 1:
        lines.append('DIM SHARED ' + ', '.join(decl))
        for i, it in enumerate(pool):
            if it['k'] in ('num', 'str'):
                lines.append('v%d%s = %s' % (i, SUFFIX[it['t']], it['lit']))
        lines.append('CALL show')
        lines.append('END')
        lines.append('SUB show')
        lines += ['  ' + s for s in stmts]
        lines.append('END SUB')
        rep = 1
    else:
        for i, it in enumerate(pool):
            if it['k'] in ('num', 'str'):
                lines.append('v%d%s = %s' % (i, SUFFIX[it['t']], it['lit']))
        lines.append('FOR k% = 1 TO 2')
        lines += ['  ' + s for s in stmts]
        lines.append('NEXT k%')
        lines.append('END')
        for t in 'ILSD':
            lines += ['FUNCTION id%s%s(x%s)' % (t.lower(), SUFFIX[t], SUFFIX[t]),
                      '  id%s%s = x%s' % (t.lower(), SUFFIX[t], SUFFIX[t]), 'END FUNCTION']
        lines += ['FUNCTION idt$(x$)', '  idt$ = x$', 'END FUNCTION']
        rep = 2
    return '\n'.join(lines) + '\n', rep


def _replay_job(job):
    from lib import qb
    text, cfgs, expected, rep = job
    res = []
    for (O, g) in cfgs:
        c, rec, out = qb.compile_and_run(text, O, g)
        if c['st'] != 'ok':
            res.append({'cfg': [O, g], 'fail': 'compile', 'detail': {k: v for k, v in c.items() if k != 'code'}})
            continue
        got = [list(e[1].encode('latin-1', 'replace')) for e in rec.events if e[0] == 'terminal_print']
        exp = expected * rep
        if out['how'] != 'halt':
            res.append({'cfg': [O, g], 'fail': 'outcome', 'detail': out})
            continue
        bad = None
        if len(got) != len(exp):
            bad = {'idx': -1, 'got_n': len(got), 'exp_n': len(exp)}
        else:
            for i, (a, b) in enumerate(zip(got, exp)):
                if a != b:
                    bad = {'idx': i % len(expected), 'got': a, 'exp': b}
                    break
        if bad:
            res.append({'cfg': [O, g], 'fail': 'text', 'detail': bad})
    return res


MC_CFG = '''SPECIFICATION Spec
CONSTANT N = %d
CONSTANT MinLen = %d
INVARIANT TypeOK
INVARIANT ColInv
INVARIANT ZoneInv
INVARIANT FunInv
INVARIANT EndInv
INVARIANT Total
INVARIANT Report
CHECK_DEADLOCK FALSE
'''


def first_diff_kind(pool, seq, got, exp):
    """trigger class: the kind of the item in whose rendering the texts first differ."""
    n = 0
    while n < min(len(got), len(exp)) and got[n] == exp[n]:
        n += 1
    # walk the items to find which one covers position n (expected text)
    pos = 0
    col = 0
    for i in seq:
        it = pool[i]
        if it['k'] == 'num':
            w = (len(str(abs(it['v']))) + 2) if it['t'] in 'IL' else len(it['b']) + 2
        elif it['k'] == 'str':
            w = len(it['b'])
        elif it['k'] == 'comma':
            w = 14 - (col % 14)
        else:
            w = 0
        if pos + w > n:
            return it['k'] + (':' + it['t'] if it['k'] == 'num' else '')
        pos += w
        col += w
    return 'endline'


def run(ctx):
    work = tlc.scratch_dir('qbv-c17-')
    try:
        return _run(ctx, work)
    finally:
        import shutil
        shutil.rmtree(work, ignore_errors=True)


def _run(ctx, work):
    rng = random.Random(ctx.seed)
    pool = make_pool(ctx.tier)
    pool_path = os.path.join(work, 'pool.json')
    tlc.write_json(pool_path, [{k: v for k, v in it.items() if k != 'lit'} for it in pool])
    N = ctx.pick(3, 4)
    r = tlc.run_tlc('MC_Print', MC_CFG % (N, 0), env={'POOL': pool_path}, workers=8)
    if r.error:
        if r.invariant:
            ctx.violation('model-invariant', r.invariant, {'tlc': r.error[:2000]})
            return
        raise Machinery('MC_Print: ' + r.error[:1500])
    behaviours = r.printed
    states, gen = r.distinct, r.generated
    # longer sequences by simulation
    nsim = ctx.pick(300, 3000)
    r2 = tlc.run_tlc('MC_Print', MC_CFG % (ctx.pick(8, 12), ctx.pick(5, 6)), env={'POOL': pool_path},
                     workers=1, simulate=nsim, depth=60, seed=ctx.seed)
    if r2.error:
        if r2.invariant:
            ctx.violation('model-invariant', r2.invariant, {'tlc': r2.error[:2000]})
            return
        raise Machinery('MC_Print simulate: ' + r2.error[:1500])
    seen = set()
    beh = []
    for b in behaviours + r2.printed:
        key = tuple(b['hist'])
        if key in seen:
            continue
        seen.add(key)
        beh.append(b)
    # the source language needs a separator between two expressions: such
    # sequences are model behaviours without a source form
    usable = [b for b in beh if not adjacent_values([pool[i - 1] for i in b['hist']])]
    rng.shuffle(usable)
    B = 25
    jobs = []
    meta = []
    cfgs_all = [(0, False), (0, True), (1, False), (1, True), (2, False), (2, True)]
    for bi in range(0, len(usable), B):
        batch = usable[bi:bi + B]
        k = bi // B
        variant = k % 3
        seqs = [[i - 1 for i in b['hist']] for b in batch]
        text, rep = build_program(pool, seqs, variant)
        if ctx.quick():
            cfgs = [cfgs_all[k % 6], cfgs_all[(k + 3) % 6]]
        else:
            cfgs = cfgs_all
        jobs.append((text, cfgs, [b['text'] for b in batch], rep))
        meta.append((seqs, variant, text))
    results = par.pmap(_replay_job, jobs)
    nrep = 0
    for (seqs, variant, text), res, job in zip(meta, results, jobs):
        nrep += len(seqs) * len(job[1])
        for f in res:
            if f['fail'] == 'text' and f['detail'].get('idx', -1) >= 0:
                i = f['detail']['idx']
                trig = first_diff_kind(pool, seqs[i], f['detail']['got'], f['detail']['exp'])
                stmt = render_stmt([pool[j] for j in seqs[i]], variant, seqs[i])
                ctx.violation('text', trig, {'mode': 'replay', 'stmt': stmt, 'variant': variant,
                                             'cfg': f['cfg'], 'got': bytes(f['detail']['got']).decode('latin-1'),
                                             'exp': bytes(f['detail']['exp']).decode('latin-1'), 'program': text})
            else:
                ctx.violation(f['fail'], str(f['detail'].get('type', f['detail'].get('how', f['detail'].get('st', '?')))),
                              {'mode': 'replay', 'cfg': f['cfg'], 'detail': f['detail'], 'program': text})

    # ---- code -> spec: random long statements, validated by Trace_Print -------
    ntr = ctx.pick(400, 6000)
    cases = gen_trace_cases(rng, ntr)
    tjobs = []
    for bi in range(0, len(cases), B):
        batch = cases[bi:bi + B]
        text = '\n'.join(c['src'] for c in batch) + '\n'
        tjobs.append((text, [cfgs_all[(bi // B) % 6]], batch))
    tres = par.pmap(_trace_job, tjobs)
    tcases = []
    for (text, cfgs, batch), res in zip(tjobs, tres):
        if 'fail' in res:
            ctx.violation(res['fail'], str(res.get('type', '?')), {'mode': 'trace', 'program': text, 'detail': res})
            continue
        for c, obs in zip(batch, res['texts']):
            tcases.append({'tid': len(tcases), 'items': c['items'], 'text': obs, 'src': c['src'], 'cfg': cfgs[0]})
    verdicts = validate_traces(work, tcases)
    bad = [(c, v) for c, v in zip(tcases, verdicts) if v['verdict'] != 'ok']
    for c, v in bad:
        ctx.violation('trace:' + v['verdict'], 'item', {'mode': 'trace', 'stmt': c['src'], 'cfg': c['cfg'],
                                                        'observed': bytes(c['text']).decode('latin-1'), 'verdict': v})
    # ---- binding demonstration: a corrupted trace must be rejected -----------
    demo = binding_demo(work, tcases)
    ctx.coverage.update({
        'states': states, 'transitions': gen,
        'traces_validated_against_impl': len(tcases),
        'behaviours_replayed': nrep,
        'behaviours_from_tlc': len(beh),
        'behaviours_without_source_form': len(beh) - len(usable),
        'exhaustive': True,
        'exhaustive_bound': 'all item sequences of length <= %d over a pool of %d items' % (N, len(pool)),
        'simulated_behaviours': len(r2.printed),
        'binding_demo': demo,
        'samples': [
            {'behaviour': usable[0]['hist'], 'stmt': render_stmt([pool[i - 1] for i in usable[0]['hist']], 0, [i - 1 for i in usable[0]['hist']]),
             'text': bytes(usable[0]['text']).decode('latin-1')},
            {'trace_stmt': tcases[0]['src'], 'observed': bytes(tcases[0]['text']).decode('latin-1')} if tcases else {},
        ],
    })
    ctx.assumptions += [
        'number text of SINGLE/DOUBLE pool items is given as data (validated by C16/NumText), integers are rendered by the spec',
        'column counted per statement, as the property states',
    ]
    if demo.get('rejected') != demo.get('corrupted'):
        raise Machinery('binding demonstration failed: corrupted traces accepted: %r' % demo)


def gen_trace_cases(rng, n):
    cases = []
    for _ in range(n):
        k = rng.randint(0, 12)
        items = []
        src = []
        prev_val = False
        for _j in range(k):
            c = rng.random()
            if prev_val or c < 0.35:
                if rng.random() < 0.5:
                    items.append({'k': 'semi', 't': '', 'v': 0, 'b': []})
                    src.append(';')
                else:
                    items.append({'k': 'comma', 't': '', 'v': 0, 'b': []})
                    src.append(',')
                prev_val = False
            elif c < 0.65:
                t = rng.choice('IL')
                if t == 'I':
                    v = rng.choice([rng.randint(-32768, 32767), rng.randint(-9, 9), 32767, -32768])
                    lit = '%d%%' % v if v >= 0 else ('(%d%%)' % v if v > -32768 else '(-32767% - 1%)')
                else:
                    v = rng.choice([rng.randint(-2147483647, 2147483647), rng.randint(-99999, 99999)])
                    lit = '%d&' % v if v >= 0 else '(%d&)' % v
                items.append({'k': 'num', 't': t, 'v': v, 'b': []})
                src.append(lit)
                prev_val = True
            else:
                ln = rng.choice([0, 1, 2, 5, 13, 14, 15, 27, 28, 29, rng.randint(0, 40)])
                s = ''.join(rng.choice('abcXYZ 0189.,;:-+') for _ in range(ln))
                items.append({'k': 'str', 't': 'T', 'v': 0, 'b': S(s)})
                src.append('"%s"' % s)
                prev_val = True
        cases.append({'items': items, 'src': ('PRINT ' + ' '.join(src)).rstrip()})
    return cases


def _trace_job(job):
    from lib import qb
    text, cfgs, batch = job
    O, g = cfgs[0]
    c, rec, out = qb.compile_and_run(text, O, g)
    if c['st'] != 'ok':
        d = {k: v for k, v in c.items() if k != 'code'}
        d['fail'] = 'compile'
        return d
    got = [list(e[1].encode('latin-1', 'replace')) for e in rec.events if e[0] == 'terminal_print']
    if out['how'] not in ('halt', 'eoc') or len(got) != len(batch):
        return {'fail': 'outcome', 'type': out.get('type', out['how']), 'out': out, 'n': len(got)}
    return {'texts': got}


TRACE_CFG = '''SPECIFICATION Spec
INVARIANT Report
CHECK_DEADLOCK FALSE
'''


def validate_traces(work, tcases, name='traces.json'):
    if not tcases:
        return []
    path = os.path.join(work, name)
    tlc.write_json(path, [{'tid': c['tid'], 'items': c['items'], 'text': c['text']} for c in tcases])
    r = tlc.run_tlc('Trace_Print', TRACE_CFG, env={'CASES': path}, workers=1)
    if r.error:
        raise Machinery('Trace_Print: ' + r.error[:1500])
    by = {v['tid']: v for v in r.printed}
    if len(by) != len(tcases):
        raise Machinery('Trace_Print: %d verdicts for %d traces' % (len(by), len(tcases)))
    return [by[c['tid']] for c in tcases]


def binding_demo(work, tcases):
    """corrupt one byte / drop one item of passing traces: all must be rejected."""
    demo = []
    for c in tcases[:40]:
        if len(c['text']) >= 3:
            d = dict(c)
            t = list(c['text'])
            t[len(t) // 2] = 33 if t[len(t) // 2] != 33 else 34
            d['text'] = t
            demo.append(d)
        vals = [i for i, it in enumerate(c['items']) if it['k'] in ('num',) or (it['k'] == 'str' and it['b'])]
        if vals:
            d = dict(c)
            d['items'] = [it for i, it in enumerate(c['items']) if i != vals[0]]
            demo.append(d)
    for i, d in enumerate(demo):
        d['tid'] = i
    v = validate_traces(work, demo, 'demo.json')
    return {'corrupted': len(demo), 'rejected': sum(1 for x in v if x['verdict'] != 'ok')}


def replay(ctx, case):
    from lib import qb
    if 'program' in case:
        cfg = case.get('cfg', [0, False])
        c, rec, out = qb.compile_and_run(case['program'], cfg[0], cfg[1])
        print('config', cfg, 'compile', c['st'], 'outcome', out)
        if rec:
            for e in rec.events:
                print(repr(e))
    print(json.dumps(case, indent=1)[:3000])
    ctx.coverage.update({'evaluations': 1, 'distinct_nontrivial': 2, 'samples': [case.get('stmt', '')]})
