------------------------------ MODULE MC_Using ------------------------------
(* All format strings of length <= L over the alphabet; scanner invariants;   *)
(* every closed format is printed with its parts for the replay harness.      *)
EXTENDS Using, TLC, Json, IOUtils
CONSTANT L
Alphabet == JsonDeserialize(IOEnv.ALPHA)

VARIABLES fmt, closed
vars == <<fmt, closed>>
Init == fmt = <<>> /\ closed = FALSE
Extend(c) == ~closed /\ Len(fmt) < L /\ fmt' = Append(fmt, c) /\ UNCHANGED closed
Close == ~closed /\ closed' = TRUE /\ UNCHANGED fmt
Next == Close \/ \E i \in 1..Len(Alphabet) : Extend(Alphabet[i])
Spec == Init /\ [][Next]_vars

RECURSIVE Escapes(_, _)
Escapes(f, i) == IF i > Len(f) THEN 0
                 ELSE IF f[i] = USCORE THEN 1 + Escapes(f, i + 2) ELSE Escapes(f, i + 1)
PartLen(p) == CASE p[1] = "lit" -> Len(p[2]) [] p[1] = "num" -> p[2] [] OTHER -> 1
RECURSIVE SumLen(_)
SumLen(ps) == IF ps = <<>> THEN 0 ELSE PartLen(Head(ps)) + SumLen(Tail(ps))

\* the parts of an unambiguous format account for every character of it exactly once
Covers == closed => LET s == ScanFormat(fmt) IN
            s.amb \/ SumLen(s.parts) + Escapes(fmt, 1) = Len(fmt)
\* a numeric field has at least one digit position, decimals fit inside the width
FieldShape == closed => LET s == ScanFormat(fmt) IN
            s.amb \/ \A k \in 1..Len(s.parts) :
                        s.parts[k][1] = "num" =>
                           /\ s.parts[k][2] >= 1
                           /\ s.parts[k][3] + (IF s.parts[k][4] THEN 1 ELSE 0) < s.parts[k][2]
\* two literal parts are never adjacent (literals are maximal)
LitMaximal == closed => LET s == ScanFormat(fmt) IN
            s.amb \/ \A k \in 1..(Len(s.parts) - 1) : ~(s.parts[k][1] = "lit" /\ s.parts[k + 1][1] = "lit")

Report == closed => LET s == ScanFormat(fmt) IN
            PrintT(ToJson([fmt |-> fmt, amb |-> s.amb, parts |-> s.parts]))
=============================================================================
