------------------------------- MODULE Faults -------------------------------
(***************************************************************************)
(* Static rule violations and what the compiler owes for them (C05).       *)
(*                                                                         *)
(* A SITE is a place in a valid host program: the routine it belongs to,   *)
(* the stack of blocks that enclose it (innermost last), and - when the    *)
(* innermost block is an IF block - whether an ELSE (ce) or an ELSEIF (ci) *)
(* may still be written there: no ELSE arm yet and, for ELSE, no ELSEIF    *)
(* further down; when it is a SELECT block, whether a numeric CASE clause  *)
(* may be added there (cs: numeric selector, not behind CASE ELSE).  A FAULT is a *)
(* construct from the catalogue; injected at a site it either violates a   *)
(* static rule there - then the program must be rejected with one of the   *)
(* categories of that rule, at a position inside the allowed line span -   *)
(* or it happens to be legal there (EXIT FOR inside a FOR, ELSE inside an  *)
(* IF block, CASE inside SELECT) - then the program must be accepted.      *)
(* Legality is DERIVED from the block stack, not listed.                   *)
(*                                                                         *)
(* Line rules (which lines a diagnostic may point at):                     *)
(*   "line"  the injected line                                             *)
(*   "pair"  either of the two injected lines                              *)
(*   "span"  any line of the routine the fault is in (unclosed block,      *)
(*           early or stray terminator: the mismatch is discovered at a    *)
(*           later terminator, and of two nested blocks of one kind it is  *)
(*           not defined which one is "the unclosed one")                  *)
(***************************************************************************)
EXTENDS Integers, Sequences, FiniteSets

Sites == {
    [name |-> "main_top",    routine |-> "main",     blocks |-> <<>>, ce |-> FALSE, ci |-> FALSE, cs |-> FALSE],
    [name |-> "main_if",     routine |-> "main",     blocks |-> <<"if">>, ce |-> TRUE, ci |-> TRUE, cs |-> FALSE],
    [name |-> "main_for",    routine |-> "main",     blocks |-> <<"for">>, ce |-> FALSE, ci |-> FALSE, cs |-> FALSE],
    [name |-> "main_do",     routine |-> "main",     blocks |-> <<"do">>, ce |-> FALSE, ci |-> FALSE, cs |-> FALSE],
    [name |-> "main_select", routine |-> "main",     blocks |-> <<"select">>, ce |-> FALSE, ci |-> FALSE, cs |-> TRUE],
    [name |-> "main_nest",   routine |-> "main",     blocks |-> <<"for", "if", "do">>, ce |-> FALSE, ci |-> FALSE, cs |-> FALSE],
    [name |-> "sub_top",     routine |-> "sub",      blocks |-> <<>>, ce |-> FALSE, ci |-> FALSE, cs |-> FALSE],
    [name |-> "sub_while",   routine |-> "sub",      blocks |-> <<"while">>, ce |-> FALSE, ci |-> FALSE, cs |-> FALSE],
    [name |-> "fn_top",      routine |-> "function", blocks |-> <<>>, ce |-> FALSE, ci |-> FALSE, cs |-> FALSE],
    [name |-> "fn_for",      routine |-> "function", blocks |-> <<"for">>, ce |-> FALSE, ci |-> FALSE, cs |-> FALSE] }

Innermost(s) == IF s.blocks = <<>> THEN "none" ELSE s.blocks[Len(s.blocks)]
Encloses(s, b) == \E i \in 1..Len(s.blocks) : s.blocks[i] = b

Syn == {"SYNTAX", "BLOCK_MISMATCH"}

\* the catalogue: name -> [cats, rule]; legality is given separately
Catalogue == {
    [name |-> "assign-str-to-num",  cats |-> {"TYPE_MISMATCH"}, rule |-> "line"],
    [name |-> "assign-num-to-str",  cats |-> {"TYPE_MISMATCH"}, rule |-> "line"],
    [name |-> "op-mismatch",        cats |-> {"TYPE_MISMATCH"}, rule |-> "line"],
    [name |-> "cond-string-if",     cats |-> {"TYPE_MISMATCH"}, rule |-> "pair"],
    [name |-> "cond-string-ifline", cats |-> {"TYPE_MISMATCH"}, rule |-> "line"],
    [name |-> "cond-string-while",  cats |-> {"TYPE_MISMATCH"}, rule |-> "pair"],
    [name |-> "cond-string-until",  cats |-> {"TYPE_MISMATCH"}, rule |-> "pair"],
    [name |-> "cond-string-elseif", cats |-> {"TYPE_MISMATCH"}, rule |-> "pair"],
    [name |-> "case-mismatch",      cats |-> {"TYPE_MISMATCH"}, rule |-> "pair"],
    [name |-> "case-range-mismatch", cats |-> {"TYPE_MISMATCH"}, rule |-> "pair"],
    [name |-> "for-string-bound",   cats |-> {"TYPE_MISMATCH"}, rule |-> "pair"],
    [name |-> "arg-mismatch",       cats |-> {"TYPE_MISMATCH"}, rule |-> "line"],
    [name |-> "const-arg-mismatch", cats |-> {"TYPE_MISMATCH"}, rule |-> "line"],
    [name |-> "const-case-mismatch", cats |-> {"TYPE_MISMATCH"}, rule |-> "pair"],
    [name |-> "const-cond-string",  cats |-> {"TYPE_MISMATCH"}, rule |-> "pair"],
    [name |-> "next-other-suffix",  cats |-> Syn, rule |-> "pair"],
    [name |-> "next-other-var",     cats |-> Syn, rule |-> "pair"],
    [name |-> "arg-mismatch-fn",    cats |-> {"TYPE_MISMATCH"}, rule |-> "line"],
    [name |-> "subscript-string",   cats |-> {"TYPE_MISMATCH"}, rule |-> "line"],
    [name |-> "undef-label",        cats |-> {"LABEL_NOT_DEFINED"}, rule |-> "line"],
    [name |-> "undef-label-gosub",  cats |-> {"LABEL_NOT_DEFINED"}, rule |-> "line"],
    [name |-> "dup-label",          cats |-> {"DUPLICATE_LABEL"}, rule |-> "pair"],
    [name |-> "dup-dim",            cats |-> {"DUPLICATE_DEFINITION"}, rule |-> "pair"],
    [name |-> "dup-const",          cats |-> {"DUPLICATE_DEFINITION"}, rule |-> "pair"],
    [name |-> "argcount",           cats |-> {"ARGUMENT_COUNT_MISMATCH"}, rule |-> "line"],
    [name |-> "argcount-fn",        cats |-> {"ARGUMENT_COUNT_MISMATCH"}, rule |-> "line"],
    [name |-> "argcount-none",      cats |-> {"ARGUMENT_COUNT_MISMATCH"}, rule |-> "line"],
    [name |-> "rank",               cats |-> {"WRONG_NUMBER_OF_DIMENSIONS"}, rule |-> "line"],
    [name |-> "rank-read",          cats |-> {"WRONG_NUMBER_OF_DIMENSIONS"}, rule |-> "line"],
    [name |-> "undef-type",         cats |-> {"TYPE_NOT_DEFINED"}, rule |-> "line"],
    [name |-> "undef-field",        cats |-> {"ELEMENT_NOT_DEFINED"}, rule |-> "line"],
    [name |-> "undef-field-read",   cats |-> {"ELEMENT_NOT_DEFINED"}, rule |-> "line"],
    [name |-> "undef-proc",         cats |-> {"SUBPROGRAM_NOT_FOUND"}, rule |-> "line"],
    [name |-> "exit-for",           cats |-> {"INVALID_EXIT"}, rule |-> "line"],
    [name |-> "exit-do",            cats |-> {"INVALID_EXIT"}, rule |-> "line"],
    [name |-> "exit-sub",           cats |-> {"INVALID_EXIT"}, rule |-> "line"],
    [name |-> "exit-function",      cats |-> {"INVALID_EXIT"}, rule |-> "line"],
    [name |-> "stray-else",         cats |-> {"ELSE_WITHOUT_IF"} \cup Syn, rule |-> "line"],
    [name |-> "stray-elseif",       cats |-> {"ELSE_WITHOUT_IF"} \cup Syn, rule |-> "line"],
    [name |-> "second-else",        cats |-> {"ELSE_WITHOUT_IF"} \cup Syn, rule |-> "span"],
    [name |-> "stray-case",         cats |-> Syn, rule |-> "line"],
    [name |-> "stray-endif",        cats |-> Syn, rule |-> "span"],
    [name |-> "stray-next",         cats |-> Syn, rule |-> "span"],
    [name |-> "stray-wend",         cats |-> Syn, rule |-> "span"],
    [name |-> "stray-loop",         cats |-> Syn, rule |-> "span"],
    [name |-> "stray-endselect",    cats |-> Syn, rule |-> "span"],
    [name |-> "unclosed-for",       cats |-> Syn, rule |-> "span"],
    [name |-> "unclosed-if",        cats |-> Syn, rule |-> "span"],
    [name |-> "unclosed-do",        cats |-> Syn, rule |-> "span"],
    [name |-> "unclosed-while",     cats |-> Syn, rule |-> "span"],
    [name |-> "unclosed-select",    cats |-> Syn, rule |-> "span"],
    [name |-> "illegal-literal",    cats |-> {"SYNTAX"}, rule |-> "line"],
    [name |-> "illegal-literal-exp", cats |-> {"SYNTAX"}, rule |-> "line"],
    [name |-> "illegal-literal-int", cats |-> {"SYNTAX"}, rule |-> "line"],
    [name |-> "nonconst-const",     cats |-> {"INVALID_CONSTANT"}, rule |-> "line"],
    [name |-> "none",               cats |-> {}, rule |-> "line"] }

\* a construct that is legal at the site (the host stays a valid program)
LegalAt(f, s) ==
    CASE f = "none" -> TRUE
      [] f = "exit-for" -> Encloses(s, "for")
      [] f = "exit-do" -> Encloses(s, "do")
      [] f = "exit-sub" -> s.routine = "sub"
      [] f = "exit-function" -> s.routine = "function"
      [] f = "stray-else" -> Innermost(s) = "if" /\ s.ce
      [] f = "stray-elseif" -> Innermost(s) = "if" /\ s.ci
      [] f = "stray-case" -> Innermost(s) = "select" /\ s.cs
      [] OTHER -> FALSE

\* an early terminator of the innermost block leaves the host's own terminator without a partner:
\* still rejected, discovered further down
Expect(f, s) ==
    LET e == CHOOSE c \in Catalogue : c.name = f IN
    IF LegalAt(f, s) THEN [accept |-> TRUE, cats |-> {}, rule |-> "line"]
    \* an ELSE / ELSEIF written into an IF block that cannot take it clashes with an arm of that block:
    \* which of the two the diagnostic names is not defined
    ELSE [accept |-> FALSE, cats |-> e.cats,
          rule |-> IF f \in {"stray-else", "stray-elseif"} /\ Innermost(s) = "if" THEN "span" ELSE e.rule]

Noises == {"none", "blank-lines", "comments", "declarations"}
=============================================================================
