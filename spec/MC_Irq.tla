------------------------------- MODULE MC_Irq -------------------------------
(* Every placement of one or more interrupt requests in a run of N           *)
(* instructions (the digest of the state after i instructions is i).         *)
EXTENDS Irq, TLC
CONSTANT N
Init == IrqInit(0)
Next == \/ (k < N /\ Exec(k + 1, FALSE, k + 1 = N))
        \/ Interrupt
        \/ TickIrq
Spec == Init /\ [][Next]_ivars
TypeOK == k \in 0..N /\ mem \in 0..N /\ irq \in BOOLEAN /\ halted \in BOOLEAN
\* a run stopped by an interrupt executed exactly the instructions before the request
StoppedWhereAsked == (halted /\ trap = "KEYBOARD_INTERRUPT") => mem = k
NoProgressWhilePending == irq => ~halted
=============================================================================
