----------------------------- MODULE Trace_Input -----------------------------
(* Trace validation for INPUT.  A case = the statement's parameters as the    *)
(* compiler handed them to the device (types, prompt form and text), and the  *)
(* recorded dialogue: a sequence of events                                    *)
(*    [k |-> "show", b |-> text]   text shown since the previous event        *)
(*    [k |-> "line", b |-> line]   a response line read from the keyboard     *)
(*    [k |-> "done", v |-> values] the statement ended, values handed over    *)
(* Each event must be a step of Input.tla; the verdict names the clause.      *)
EXTENDS Input, TLC, Json, IOUtils
Cases == JsonDeserialize(IOEnv.CASES)

VARIABLES cid, l, verdict, pend
vars == <<cid, l, verdict, pend, phase, shown, vals>>
C == Cases[cid]
Ev == C.ev[l]

Init == /\ cid \in 1..Len(Cases) /\ l = 1 /\ verdict = "run" /\ pend = <<>> /\ IInit

\* value agreement: the spec's value (if it computes one) against the recorded one
ValOK(sv, ov) == \/ sv[1] = "skip"
                 \/ sv[1] = "I" /\ ov[1] = "I" /\ sv[2] = ov[2]
                 \/ sv[1] = "T" /\ ov[1] = "T" /\ sv[2] = ov[2]
                 \/ sv[1] = "F" /\ ov[1] = "F" /\ sv[2] = ov[2] /\ sv[3] = ov[3] /\ sv[4] = ov[4]

Stop(v) == verdict' = v /\ UNCHANGED <<cid, l, pend, phase, shown, vals>>

Step ==
  /\ verdict = "run"
  /\ IF l > Len(C.ev) THEN Stop(IF phase = "done" THEN "ok" ELSE "truncated")
     ELSE IF Ev.k = "show" THEN
        \* text shown: must be the prompt when a prompt is due
        IF phase = "prompt" THEN
            IF Ev.b = pend \o PromptText(C.form, C.prompt)
            THEN ShowPrompt(C.form, C.prompt) /\ l' = l + 1 /\ pend' = <<>> /\ UNCHANGED <<cid, verdict>>
            ELSE Stop("prompt-text")
        ELSE Stop("unexpected-output")
     ELSE IF Ev.k = "line" THEN
        IF phase # "wait" THEN Stop("read-without-prompt")
        ELSE \* what happens next decides between Accept and Redo: look ahead one event
          LET nxt == IF l + 1 <= Len(C.ev) THEN C.ev[l + 1] ELSE [k |-> "none"]
              cls == LineClass(Ev.b, C.types)
          IN IF nxt.k = "done" THEN
                 IF cls = "reject" THEN Stop("accepted-bad-line")
                 ELSE Accept(Ev.b, C.types) /\ l' = l + 1 /\ UNCHANGED <<cid, verdict, pend>>
             ELSE IF nxt.k = "show" THEN
                 IF cls = "accept" THEN Stop("rejected-good-line")
                 ELSE IF SubSeq(nxt.b, 1, Len(RedoText)) # RedoText THEN Stop("redo-text")
                 ELSE /\ Redo(Ev.b, C.types) /\ l' = l + 1 /\ pend' = RedoText
                      /\ UNCHANGED <<cid, verdict>>
             ELSE Stop("truncated")
     ELSE IF Ev.k = "done" THEN
        IF phase # "done" THEN Stop("done-without-accept")
        ELSE IF Len(Ev.v) # Len(vals) THEN Stop("value-count")
        ELSE IF \E j \in 1..Len(vals) : ~ValOK(vals[j], Ev.v[j]) THEN Stop("value")
        ELSE IF Ev.left # 0 THEN Stop("left-on-stack")
        ELSE l' = l + 1 /\ UNCHANGED <<cid, verdict, pend, phase, shown, vals>>
     ELSE Stop("unknown-event")

Spec == Init /\ [][Step]_vars
Report == verdict # "run" => PrintT(ToJson([tid |-> C.tid, verdict |-> verdict, l |-> l]))
=============================================================================
