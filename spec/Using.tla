-------------------------------- MODULE Using --------------------------------
(***************************************************************************)
(* PRINT USING (property C19): the format-string scanner and the rendering *)
(* of one value per field.  Everything works on byte codes and on decimal  *)
(* digit sequences: a number is given by its EXACT decimal expansion       *)
(*   [neg |-> BOOLEAN, ip |-> integer digits (no leading zeros, <<>> if    *)
(*    |x| < 1), fp |-> fraction digits (no trailing zeros)]                *)
(* so rounding is decided on the true value of the binary float.           *)
(*                                                                         *)
(* Numeric field:  [+] # {# | ,}* [. #*] [+ | -]   (a leading + excludes a *)
(* trailing sign).  Shapes the property does not settle make the format    *)
(* "amb": a sign or point not attached to a # run, a trailing _, a field   *)
(* whose integer part ends in a comma.                                     *)
(* Where the statement leaves a choice the rendering is a SET of texts:    *)
(* exact ties round either way; the leading 0 of a value below 1 may be    *)
(* dropped when it does not fit; a value that rounds to zero may keep or   *)
(* lose its minus sign.                                                    *)
(***************************************************************************)
EXTENDS Bytes, FiniteSets


\* ---- scanner ---------------------------------------------------------------
\* parts: <<"lit", bytes>> | <<"str">> | <<"chr">> | <<"num", w, d, point, group, sign>>
\*        sign \in {"none", "lead+", "trail+", "trail-"}
At(f, i) == IF i >= 1 /\ i <= Len(f) THEN f[i] ELSE -1

RECURSIVE RunLen(_, _, _)          \* length of the run of characters from set cs starting at i
RunLen(f, i, cs) == IF At(f, i) \in cs THEN 1 + RunLen(f, i + 1, cs) ELSE 0

Flush(parts, lit) == IF lit = <<>> THEN parts ELSE Append(parts, <<"lit", lit>>)

\* numeric field starting at i (f[i] is '#', or '+' followed by '#')
NumField(f, i) ==
    LET lead == At(f, i) = PLUS
        j    == IF lead THEN i + 1 ELSE i
        k1   == RunLen(f, j, {SHARP, COMMA})
        grp  == \E k \in j..(j + k1 - 1) : f[k] = COMMA
        endc == At(f, j + k1 - 1) = COMMA
        pt   == At(f, j + k1) = POINT
        d    == IF pt THEN RunLen(f, j + k1 + 1, {SHARP}) ELSE 0
        e    == j + k1 + (IF pt THEN 1 + d ELSE 0)          \* first index after digits
        tr   == IF ~lead /\ At(f, e) = PLUS THEN "trail+"
                ELSE IF ~lead /\ At(f, e) = MINUS THEN "trail-" ELSE "none"
        sign == IF lead THEN "lead+" ELSE tr
        stop == IF tr = "none" THEN e ELSE e + 1
    \* [amb]: an integer part ending in a comma with no point after it; a comma right
    \* after the fraction positions (literal in QBASIC, not settled by the property)
    IN [next |-> stop, amb |-> (endc /\ ~pt) \/ (pt /\ At(f, e) = COMMA),
        part |-> <<"num", stop - i, d, pt, grp, sign>>]

RECURSIVE ScanF(_, _, _, _)
ScanF(f, i, lit, parts) ==
    IF i > Len(f) THEN [amb |-> FALSE, parts |-> Flush(parts, lit)]
    ELSE LET c == f[i] IN
      IF c = USCORE THEN
           IF i = Len(f) THEN [amb |-> TRUE, parts |-> <<>>]
           ELSE ScanF(f, i + 2, Append(lit, f[i + 1]), parts)
      ELSE IF c = AMP THEN ScanF(f, i + 1, <<>>, Append(Flush(parts, lit), <<"str">>))
      ELSE IF c = BANG THEN ScanF(f, i + 1, <<>>, Append(Flush(parts, lit), <<"chr">>))
      ELSE IF c = SHARP \/ (c = PLUS /\ At(f, i + 1) = SHARP) THEN
           LET nf == NumField(f, i) IN
           IF nf.amb THEN [amb |-> TRUE, parts |-> <<>>]
           ELSE ScanF(f, nf.next, <<>>, Append(Flush(parts, lit), nf.part))
      ELSE IF c = PLUS \/ c = MINUS THEN [amb |-> TRUE, parts |-> <<>>]
      ELSE IF c = POINT /\ At(f, i + 1) = SHARP THEN [amb |-> TRUE, parts |-> <<>>]
      ELSE ScanF(f, i + 1, Append(lit, c), parts)

ScanFormat(f) == ScanF(f, 1, <<>>, <<>>)

IsField(p) == p[1] \in {"str", "chr", "num"}
NFields(parts) == Cardinality({k \in 1..Len(parts) : IsField(parts[k])})

\* ---- digit sequences ------------------------------------------------------------
RECURSIVE IncDigits(_)       \* ds + 1, possibly one digit longer
IncDigits(ds) == IF ds = <<>> THEN <<1>>
                 ELSE IF ds[Len(ds)] < 9 THEN [ds EXCEPT ![Len(ds)] = ds[Len(ds)] + 1]
                 ELSE Append(IncDigits(SubSeq(ds, 1, Len(ds) - 1)), 0)

Zeros(n) == [i \in 1..n |-> 0]
AllZero(ds) == \A i \in 1..Len(ds) : ds[i] = 0
RECURSIVE StripLead(_)
StripLead(ds) == IF ds # <<>> /\ Head(ds) = 0 THEN StripLead(Tail(ds)) ELSE ds

\* |x| = ip.fp rounded to d decimals: set of admissible <<ip', kept fraction digits>>
RoundDec(ip, fp, d) ==
    LET fpp  == IF Len(fp) >= d THEN fp ELSE fp \o Zeros(d - Len(fp))
        keep == SubSeq(fpp, 1, d)
        rest == SubSeq(fpp, d + 1, Len(fpp))
        down == <<ip, keep>>
        all  == IncDigits(ip \o keep)                       \* incremented, as one digit string
        upip == SubSeq(all, 1, Len(all) - d)
        up   == <<StripLead(upip), SubSeq(all, Len(all) - d + 1, Len(all))>>
    IN IF rest = <<>> \/ rest[1] < 5 THEN {down}
       ELSE IF rest[1] > 5 \/ ~AllZero(Tail(rest)) THEN {up}
       ELSE {down, up}                                       \* exact tie: either way

DigitBytes(ds) == [i \in 1..Len(ds) |-> 48 + ds[i]]

RECURSIVE Grouped(_)       \* digit bytes with a comma before every group of three
Grouped(bs) == IF Len(bs) <= 3 THEN bs
               ELSE Grouped(SubSeq(bs, 1, Len(bs) - 3)) \o <<COMMA>> \o SubSeq(bs, Len(bs) - 2, Len(bs))

PadLeft(s, w) == IF Len(s) >= w THEN s ELSE [i \in 1..(w - Len(s)) |-> BLANK] \o s

\* admissible texts of one numeric field
NumTexts(part, v) ==
    LET w == part[2]  d == part[3]  pt == part[4]  grp == part[5]  sign == part[6]
        Body(r, zero, showpt) ==
            LET ipb == IF r[1] = <<>> THEN (IF zero THEN <<48>> ELSE <<>>) ELSE DigitBytes(r[1])
                ig  == IF grp THEN Grouped(ipb) ELSE ipb
            IN ig \o (IF pt /\ showpt THEN <<POINT>> \o DigitBytes(r[2]) ELSE <<>>)
        Signed(body, neg) ==
            CASE sign = "lead+"  -> (IF neg THEN <<MINUS>> ELSE <<PLUS>>) \o body
              [] sign = "trail+" -> body \o (IF neg THEN <<MINUS>> ELSE <<PLUS>>)
              [] sign = "trail-" -> body \o (IF neg THEN <<MINUS>> ELSE <<BLANK>>)
              [] OTHER           -> (IF neg THEN <<MINUS>> ELSE <<>>) \o body
        \* a non-negative value in a trailing-minus field ends in a blank; whether it may use
        \* that position when it would not fit otherwise is not settled: both forms
        Final(t) == IF Len(t) <= w THEN {PadLeft(t, w)}
                    ELSE IF sign = "trail-" /\ t[Len(t)] = BLANK
                         THEN {<<PERCENT>> \o t} \cup
                              (LET u == SubSeq(t, 1, Len(t) - 1)
                               IN IF Len(u) <= w THEN {PadLeft(u, w)} ELSE {<<PERCENT>> \o u})
                    ELSE {<<PERCENT>> \o t}
        \* a field "##." has a point but no decimals: printing the point is not settled: both forms
        pts == IF pt /\ d = 0 THEN {TRUE, FALSE} ELSE {TRUE}
        One(r) ==
            LET isz  == r[1] = <<>> /\ AllZero(r[2])
                negs == IF v.neg /\ isz THEN {TRUE, FALSE} ELSE {v.neg}
                \* the leading zero of a value below one: shown; if that does not fit, both forms
                zs   == IF r[1] # <<>> THEN {TRUE}
                        ELSE IF d = 0 THEN {TRUE}
                        ELSE {TRUE, FALSE}
            IN UNION { UNION {
                 UNION { LET withz == Signed(Body(r, TRUE, sp), ng)
                             t == Signed(Body(r, z, sp), ng)
                         IN IF z THEN Final(t)
                            ELSE IF Len(withz) > w THEN Final(t) ELSE {}
                         : z \in zs } : ng \in negs } : sp \in pts }
    IN UNION { One(r) : r \in RoundDec(v.ip, v.fp, d) }

\* admissible texts of any field for a value; {} = the value does not suit the field
FieldTexts(part, v) ==
    CASE part[1] = "lit" -> {part[2]}
      [] part[1] = "str" -> IF v.k = "str" THEN {v.b} ELSE {}
      [] part[1] = "chr" -> IF v.k = "str" /\ v.b # <<>> THEN {<<v.b[1]>>} ELSE {}
      [] part[1] = "num" -> IF v.k = "num" THEN NumTexts(part, v) ELSE {}
=============================================================================
