----------------------------- MODULE Trace_Print -----------------------------
(* Trace validation for PRINT: each case is the typed item list taken from  *)
(* the operand stack of the real VM just before `io terminal,print` and the *)
(* text the terminal device handed to the peripheral.  The machine of       *)
(* Print.tla is stepped over the items; after every step the text written   *)
(* so far must be a prefix of the observed text, at the end it must be the  *)
(* whole of it.  The verdict names the failing clause.                      *)
EXTENDS Print, TLC, Json, IOUtils
Cases == JsonDeserialize(IOEnv.CASES)

VARIABLES cid, verdict, step
vars == <<cid, verdict, step, todo, buf, col, done>>

Obs(c) == Cases[c].text
IsPrefixOf(s, t) == Len(s) <= Len(t) /\ \A i \in 1..Len(s) : s[i] = t[i]

Init == /\ cid \in 1..Len(Cases)
        /\ verdict = "run" /\ step = 0
        /\ PInit(Cases[cid].items)

LastSep == LET its == Cases[cid].items IN its # <<>> /\ IsSep(its[Len(its)])

Machine == Num \/ Str \/ Semi \/ Comma \/ EndLine(LastSep)

Step == /\ verdict = "run"
        /\ Machine
        /\ step' = step + 1
        /\ UNCHANGED cid
        /\ verdict' = IF ~IsPrefixOf(buf', Obs(cid))
                      THEN (IF todo = <<>> THEN "endline" ELSE Head(todo).k)
                      ELSE IF done' THEN (IF Len(buf') = Len(Obs(cid)) THEN "ok" ELSE "extra-text")
                      ELSE "run"

Spec == Init /\ [][Step]_vars

Report == verdict # "run" =>
            PrintT(ToJson([tid |-> Cases[cid].tid, verdict |-> verdict, l |-> step]))
=============================================================================
