--------------------------- MODULE Trace_Peephole ---------------------------
(***************************************************************************)
(* Both runs of a spliced window - as written, and after                   *)
(* QvmCode.optimize() - against the value the specification gives the      *)
(* window.  A run is [how ("halt" | "trap" | "crash"), trap, val (typed    *)
(* value printed, or <<"-", 0, 0>>), big (value outside TLC's integers),   *)
(* branch ("T"/"F"/"-": which arm of IF <window> ran)].                    *)
(***************************************************************************)
EXTENDS Peephole, TLC, Json, IOUtils

Obs == JsonDeserialize(IOEnv.OBS)

TrapOf(kind) == CASE kind = "OVF" -> "INVALID_CELL_VALUE" [] kind = "DIV0" -> "DIVISION_BY_ZERO"
                  [] kind = "ILLEGAL" -> "INVALID_OPERAND_VALUE" [] OTHER -> "?"

RunVerdict(v, r) ==
    IF r.how = "crash" THEN "crash"
    ELSE IF IsOOM(v) THEN "oom"
    ELSE IF v[1] = "ERR" THEN (IF r.how = "trap" /\ r.trap = TrapOf(v[2]) THEN "ok" ELSE "missing-error")
    ELSE IF r.how # "halt" THEN "spurious-error"
    ELSE IF r.big THEN "oom"
    ELSE IF r.branch = "-" /\ r.val[1] = "-" THEN "value-missing"
    ELSE IF r.branch # "-" THEN (IF r.branch = (IF v[2] # 0 THEN "T" ELSE "F") THEN "ok" ELSE "branch")
    ELSE IF ~SameObs(<<r.val[1], r.val[2], r.val[3]>>, v) THEN "value"
    ELSE "ok"

Verdict(o) ==
    LET v == Value(o.w)
        a == RunVerdict(v, o.plain)
        b == RunVerdict(v, o.opt)
    IN [plain |-> a, opt |-> b,
        same |-> o.same]      \* the harness' own comparison of the two runs (also covers out-of-model values)

VARIABLE i
Init == i = 1
Next == i <= Len(Obs) /\ PrintT(ToJson([id |-> Obs[i].id, r |-> Verdict(Obs[i])])) /\ i' = i + 1
Spec == Init /\ [][Next]_i
=============================================================================
