-------------------------------- MODULE Layout --------------------------------
(***************************************************************************)
(* Storage layout of a routine's frame (property C04, C09): the size of a  *)
(* declaration, the cell of every access path, and the theorem that        *)
(* distinct access paths of distinct declarations map to distinct cells    *)
(* inside the frame.                                                       *)
(*                                                                         *)
(* A declaration is [kind, t, rank, lo, ext, nf]:                           *)
(*   kind "sc"   scalar of type t                                          *)
(*        "rec"  record with nf scalar fields                              *)
(*        "nrec" record with one scalar field followed by a nested record  *)
(*               of nf fields                                              *)
(*        "arr"  static array, rank dimensions, each lo .. lo+ext-1, of t  *)
(*        "arec" static array (rank 1) of records with nf fields           *)
(*        "dyn"  dynamic array: one reference cell                          *)
(* An access path is <<decl index, subscripts, field number (0 = none)>>.  *)
(***************************************************************************)
EXTENDS Integers, Sequences, FiniteSets

RECURSIVE Pow(_, _)
Pow(b, e) == IF e = 0 THEN 1 ELSE b * Pow(b, e - 1)

ElemSize(d) == IF d.kind = "arec" THEN d.nf ELSE 1
Header(d) == 3 + 2 * d.rank
Size(d) == CASE d.kind = "sc" -> 1
             [] d.kind = "rec" -> d.nf
             [] d.kind = "nrec" -> 1 + d.nf
             [] d.kind \in {"arr", "arec"} -> Header(d) + Pow(d.ext, d.rank) * ElemSize(d)
             [] d.kind = "dyn" -> 1

RECURSIVE BaseOf(_, _)
BaseOf(ds, i) == IF i = 1 THEN 0 ELSE BaseOf(ds, i - 1) + Size(ds[i - 1])
Total(ds) == BaseOf(ds, Len(ds) + 1)

\* all subscript tuples of a declaration
Subs(d) == IF d.kind \in {"arr", "arec"} THEN [1..d.rank -> d.lo..(d.lo + d.ext - 1)] ELSE {<<>>}
Fields(d) == CASE d.kind = "rec" -> 1..d.nf [] d.kind = "nrec" -> 1..(1 + d.nf) [] d.kind = "arec" -> 1..d.nf [] OTHER -> {0}
Paths(ds) == {<<i, s, f>> : i \in 1..Len(ds), s \in UNION {Subs(ds[j]) : j \in 1..Len(ds)}, f \in 0..4} \cap
             {p \in (1..Len(ds)) \X (UNION {Subs(ds[j]) : j \in 1..Len(ds)}) \X (0..4) :
                  p[2] \in Subs(ds[p[1]]) /\ p[3] \in Fields(ds[p[1]])}

\* row-major offset of subscripts s in d
RECURSIVE RowMajor(_, _, _)
RowMajor(d, s, k) == IF k > d.rank THEN 0
                     ELSE (s[k] - d.lo) * Pow(d.ext, d.rank - k) + RowMajor(d, s, k + 1)

CellOf(ds, p) ==
    LET d == ds[p[1]] b == BaseOf(ds, p[1]) IN
    CASE d.kind = "sc" -> b
      [] d.kind \in {"rec", "nrec"} -> b + p[3] - 1
      [] d.kind = "arr" -> b + Header(d) + RowMajor(d, p[2], 1)
      [] d.kind = "arec" -> b + Header(d) + RowMajor(d, p[2], 1) * d.nf + p[3] - 1
      [] d.kind = "dyn" -> b

\* the theorem: distinct paths, distinct cells, all inside the frame, none in an array header
Injective(ds) == \A p, q \in Paths(ds) : p # q => CellOf(ds, p) # CellOf(ds, q)
InRange(ds) == \A p \in Paths(ds) : CellOf(ds, p) >= 0 /\ CellOf(ds, p) < Total(ds)
HeaderCells(ds) == UNION {{BaseOf(ds, i) + h : h \in 0..(Header(ds[i]) - 1)} : i \in {j \in 1..Len(ds) : ds[j].kind \in {"arr", "arec"}}}
NoHeaderClash(ds) == \A p \in Paths(ds) : ds[p[1]].kind # "dyn" => CellOf(ds, p) \notin HeaderCells(ds)
=============================================================================
