------------------------------- MODULE Tokens -------------------------------
(***************************************************************************)
(* Token-level inputs for the compiler (property C06: the compiler is      *)
(* total).  A text is a sequence of tokens.  The starting points are the   *)
(* statement FORMS of the language, each written with valid operands, and  *)
(* token sequences of whole valid programs supplied by the harness.  The   *)
(* steps are the token-level mutations: drop, duplicate, swap neighbours,  *)
(* replace by / insert a token of the pool (keywords, punctuation and      *)
(* operands of every type, so "missing / extra / wrongly-typed operand"    *)
(* are all one step away).  Every text reachable within K steps is an      *)
(* input the compiler must answer with a module or a located diagnostic.   *)
(***************************************************************************)
EXTENDS Integers, Sequences, FiniteSets

NL == "@NL"      \* the harness writes a line break; string literals are written {like this} and rendered "like this"

Forms == <<
    <<"PRINT", "n%", ";", "s$", ",", "1">>,
    <<"PRINT", "USING", "{##.#}", ";", "x!">>,
    <<"n%", "=", "1", "+", "n%">>,
    <<"s$", "=", "{a}", "+", "s$">>,
    <<"LET", "x!", "=", "2.5">>,
    <<"x!", "=", "1D300">>,
    <<"n%", "=", "70000", "+", "1E10">>,
    <<"sp", "1D39", ",", "{a}">>,
    <<"n%", "=", "2", "^", "n%">>,
    <<"n%", "=", "-", "n%", "MOD", "3">>,
    <<"n%", "=", "NOT", "n%", "AND", "1">>,
    <<"n%", "=", "(", "n%", "<>", "1", ")", "*", "2">>,
    <<"n%", "=", "s$", "<", "{b}">>,
    <<"IF", "n%", "THEN", "n%", "=", "1", "ELSE", "n%", "=", "2">>,
    <<"IF", "n%", "THEN", NL, "n%", "=", "1", NL, "ELSEIF", "n%", "THEN", NL, "ELSE", NL, "END", "IF">>,
    <<"FOR", "n%", "=", "1", "TO", "3", "STEP", "2", NL, "EXIT", "FOR", NL, "NEXT", "n%">>,
    <<"WHILE", "n%", NL, "n%", "=", "0", NL, "WEND">>,
    <<"DO", "WHILE", "n%", NL, "EXIT", "DO", NL, "LOOP">>,
    <<"DO", NL, "n%", "=", "1", NL, "LOOP", "UNTIL", "n%">>,
    <<"SELECT", "CASE", "n%", NL, "CASE", "1", ",", "2", NL, "CASE", "3", "TO", "5", NL, "CASE", "IS", ">", "7", NL,
      "CASE", "ELSE", NL, "END", "SELECT">>,
    <<"SELECT", "CASE", "s$", NL, "CASE", "{a}", "TO", "{c}", NL, "END", "SELECT">>,
    <<"GOTO", "lbl", NL, "lbl:">>,
    <<"GOSUB", "lbl", NL, "END", NL, "lbl:", NL, "RETURN">>,
    <<"ON", "ERROR", "GOTO", "lbl", NL, "END", NL, "lbl:", "RESUME", "NEXT">>,
    <<"ON", "ERROR", "RESUME", "NEXT">>,
    <<"DIM", "q", "(", "1", "TO", "n%", ",", "2", ")", "AS", "LONG">>,
    <<"DIM", "SHARED", "z", "AS", "rt">>,
    <<"DIM", "q1", "(", "32000", ")", NL, "DIM", "q2", "(", "32000", ")", NL, "DIM", "q3", "(", "5000", ")">>,
    <<"CONST", "k", "=", "1", "+", "2">>,
    <<"LOCATE", "1", ",", "2">>,
    <<"COLOR", "1", ",", "2">>,
    <<"CLS">>,
    <<"BEEP">>,
    <<"SOUND", "440", ",", "1">>,
    <<"PLAY", "{abc}">>,
    <<"INPUT", "{p}", ";", "n%", ",", "s$">>,
    <<"INPUT", "x!">>,
    <<"READ", "n%", ",", "s$", NL, "DATA", "1", ",", "abc">>,
    <<"RESTORE", "lbl", NL, "lbl:", "DATA", "1">>,
    <<"RESTORE">>,
    <<"RANDOMIZE", "n%">>,
    <<"CALL", "sp", "(", "n%", ",", "s$", ")">>,
    <<"sp", "1", ",", "{a}">>,
    <<"n%", "=", "fn%", "(", "2", ")">>,
    <<"arr", "(", "2", ")", "=", "arr", "(", "n%", ")">>,
    <<"rec", ".", "f", "=", "rec", ".", "f", "+", "1">>,
    <<"rec", "=", "rec2">>,
    <<"POKE", "1", ",", "2">>,
    <<"DEF", "SEG", "=", "0">>,
    <<"VIEW", "PRINT", "1", "TO", "5">>,
    <<"SCREEN", "0">>,
    <<"WIDTH", "80", ",", "25">>,
    <<"n%", "=", "LEN", "(", "s$", ")", "+", "ASC", "(", "s$", ")">>,
    <<"s$", "=", "MID$", "(", "s$", ",", "1", ",", "2", ")", "+", "CHR$", "(", "65", ")">>,
    <<"s$", "=", "LEFT$", "(", "s$", ",", "1", ")", "+", "STR$", "(", "n%", ")">>,
    <<"n%", "=", "INSTR", "(", "s$", ",", "{a}", ")", "+", "VAL", "(", "s$", ")">>,
    <<"x!", "=", "RND", "+", "TIMER", "+", "ABS", "(", "x!", ")", "+", "INT", "(", "x!", ")">>,
    <<"n%", "=", "UBOUND", "(", "arr", ")", "-", "LBOUND", "(", "arr", ",", "1", ")">>,
    <<"s$", "=", "INKEY$", "+", "SPACE$", "(", "2", ")", "+", "STRING$", "(", "2", ",", "{x}", ")">>,
    <<"n%", "=", "PEEK", "(", "1", ")", "+", "CINT", "(", "x!", ")", "+", "ERR">>,
    <<"EXIT", "SUB">>,
    <<"STATIC", "v%">>,
    <<"DEFINT", "a", "-", "c">>,
    <<"TYPE", "t2", NL, "m", "AS", "STRING", NL, "END", "TYPE">>,
    <<"DECLARE", "SUB", "other", "(", "a%", ",", "b", "AS", "rt", ")">>,
    <<"REM", "anything", ":", "goes">>,
    <<"END">>,
    <<"KILL", "{f}">> >>

Pool == {"PRINT", "IF", "THEN", "ELSE", "END", "CASE", "NEXT", "TO", "(", ")", ",", ";", "=", "-", "^", "+", ".", ":", NL,
         "{s}", "1", "2.5", "70000", "n%", "s$", "x!", "arr", "rec", "lbl", "fn%", "sp", "AS", "NOT", "AND", "'", "&H", "1E", "1D300", "-4.5D+99"}

\* the mutations of a token sequence
DropAt(t, i) == SubSeq(t, 1, i - 1) \o SubSeq(t, i + 1, Len(t))
DupAt(t, i) == SubSeq(t, 1, i) \o SubSeq(t, i, Len(t))
SwapAt(t, i) == [k \in 1..Len(t) |-> IF k = i THEN t[i + 1] ELSE IF k = i + 1 THEN t[i] ELSE t[k]]
ReplaceAt(t, i, x) == [t EXCEPT ![i] = x]
InsertAt(t, i, x) == SubSeq(t, 1, i) \o <<x>> \o SubSeq(t, i + 1, Len(t))      \* after position i (0 = in front)

Mutants(t) ==
    {DropAt(t, i) : i \in 1..Len(t)}
    \cup {DupAt(t, i) : i \in 1..Len(t)}
    \cup {SwapAt(t, i) : i \in 1..(Len(t) - 1)}
    \cup {ReplaceAt(t, i, x) : i \in 1..Len(t), x \in Pool}
    \cup {InsertAt(t, i, x) : i \in 0..Len(t), x \in Pool}
=============================================================================
