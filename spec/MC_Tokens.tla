----------------------------- MODULE MC_Tokens -----------------------------
(***************************************************************************)
(* All texts within K token-level mutations of the statement forms of      *)
(* Tokens.tla and of the token sequences of whole programs supplied by the *)
(* harness (IOEnv.CASES; may be empty).                                    *)
(***************************************************************************)
EXTENDS Tokens, TLC, Json, IOUtils

CONSTANTS K, UseForms, Sim      \* Sim: random walks (one random mutant per step, for tlc -simulate)
Extra == JsonDeserialize(IOEnv.CASES)

\* one mutant drawn at random (position, kind and pool token drawn first: cheap also for whole programs)
RandomMutant(u) ==
    LET i == IF u = <<>> THEN 0 ELSE RandomElement(1..Len(u))
        op == RandomElement(1..5)
        x == RandomElement(Pool)
    IN IF u = <<>> THEN <<x>> ELSE
       CASE op = 1 -> DropAt(u, i)
         [] op = 2 -> DupAt(u, i)
         [] op = 3 -> IF i < Len(u) THEN SwapAt(u, i) ELSE DropAt(u, i)
         [] op = 4 -> ReplaceAt(u, i, x)
         [] OTHER -> InsertAt(u, i, x)

VARIABLES src, t, d
vars == <<src, t, d>>
Init == /\ \/ (UseForms /\ \E f \in 1..Len(Forms) : src = f /\ t = Forms[f])
           \/ \E c \in 1..Len(Extra) : src = 1000 + c /\ t = Extra[c]
        /\ d = 0
Next == /\ d < K
        /\ IF Sim THEN t' = RandomMutant(t) ELSE \E m \in Mutants(t) : t' = m
        /\ d' = d + 1
        /\ UNCHANGED src
Spec == Init /\ [][Next]_vars

V == <<src, t>>
Report == PrintT(ToJson([src |-> src, d |-> d, t |-> t]))
\* mutation never leaves the token universe, and every form is a starting point
TypeOK == \A i \in 1..Len(t) : t[i] \in STRING
=============================================================================
