---------------------------- MODULE Trace_Debugger ----------------------------
(***************************************************************************)
(* Validation of recorded debugger sessions (qvm/dbg.py driven through     *)
(* Cmd.onecmd) against the relation of Debugger.tla.  One verdict per      *)
(* session; the verdict names the first failing clause and the step.       *)
(*   past-end        the session executed more instructions than the free  *)
(*                   run has                                               *)
(*   <cmd>           the stop is not an admissible successor of the command*)
(*   moved           a breakpoint command executed instructions            *)
(*   transparent-state / transparent-dev                                   *)
(*                   machine state / device calls at the stop differ from  *)
(*                   the free run at the same instruction count            *)
(*   break-msg       the answer to break/delbr does not match the line map *)
(*   hit-msg         'Hit breakpoint' reported although no breakpoint      *)
(*                   address was reached, or not reported when `continue`  *)
(*                   stopped at one                                        *)
(*   crash           a host exception escaped the command                  *)
(***************************************************************************)
EXTENDS Integers, Sequences, FiniteSets, TLC, Json, IOUtils

Cases == JsonDeserialize(IOEnv.CASES_FILE)
Sessions == JsonDeserialize(IOEnv.SESSIONS_FILE)
D(c) == INSTANCE Debugger WITH T <- Cases[c].T, Lines <- Cases[c].L

IsBrk(cmd) == cmd \in {"break", "delbr"}

StepVerdict(c, s, idx, bps) ==
    LET j == s.n IN
    IF s.exc # "" THEN "crash"
    ELSE IF j > D(c)!Fin THEN "past-end"
    ELSE IF IsBrk(s.cmd) THEN
        IF j # idx THEN "moved"
        ELSE IF s.cmd = "break" /\ ((D(c)!Addr(s.l) = 0) # (s.msg = "nosuch")) THEN "break-msg"
        ELSE IF s.cmd = "break" /\ D(c)!Addr(s.l) # 0 /\ s.at # D(c)!Addr(s.l) THEN "break-addr"
        ELSE IF s.cmd = "delbr" /\ D(c)!Addr(s.l) # 0
                /\ ((D(c)!Addr(s.l) \in D(c)!BpAddrs(bps)) # (s.msg = "deleted")) THEN "break-msg"
        ELSE "ok"
    ELSE IF j \notin D(c)!Succ(s.cmd, idx, bps) THEN s.cmd
    ELSE IF s.dg # Cases[c].T[j].dg THEN "transparent-state"
    ELSE IF s.dv # Cases[c].T[j].dev THEN "transparent-dev"
    ELSE IF s.hit = 1 /\ ~D(c)!HitAt(j, bps) THEN "hit-msg"
    ELSE IF s.cmd = "continue" /\ s.hit = 0 /\ D(c)!HitAt(j, bps) /\ idx < D(c)!Fin THEN "hit-msg"
    ELSE "ok"

\* delbr removes one breakpoint at that address: model bps as lines, a delbr by a line
\* mapping to the same address removes one line with that address
DelOne(c, l, bps) ==
    LET same == {m \in bps : D(c)!Addr(m) = D(c)!Addr(l)} IN
    IF same = {} THEN bps ELSE IF l \in same THEN bps \ {l} ELSE bps \ {CHOOSE m \in same : TRUE}

RECURSIVE Walk(_, _, _, _, _)
Walk(c, steps, k, idx, bps) ==
    IF k > Len(steps) THEN [v |-> "ok", k |-> 0]
    ELSE LET s == steps[k]
             v == StepVerdict(c, s, idx, bps)
         IN IF v # "ok" THEN [v |-> v, k |-> k]
            ELSE Walk(c, steps, k + 1, s.n,
                      IF s.cmd = "break" THEN D(c)!BpsAfter("break", s.l, bps)
                      ELSE IF s.cmd = "delbr" THEN DelOne(c, s.l, bps) ELSE bps)

Verdict(i) ==
    LET S == Sessions[i]
        c == S.c
    IN IF S.start # D(c)!Start THEN [v |-> "start", k |-> 0]
       ELSE Walk(c, S.steps, 1, S.start, {})

VARIABLE i
Init == i = 1
Next == i <= Len(Sessions) /\ PrintT(ToJson([id |-> Sessions[i].id, r |-> Verdict(i)])) /\ i' = i + 1
Spec == Init /\ [][Next]_i
=============================================================================
