----------------------------- MODULE Trace_Total -----------------------------
(***************************************************************************)
(* Totality verdicts (property C06).  One observation per (text, level,    *)
(* debug setting):                                                         *)
(*   st     "ok" | "syntax" | "compile" | "crash" | "timeout"              *)
(*   stage  for a crash: "compile" (Compiler.compile), "bytes"             *)
(*          (assembling the module) or "listing" (assembly text)           *)
(*   loc    reported position, -1 if the diagnostic carries none           *)
(*   len    length of the text                                             *)
(* The compiler owes a module (whose binary and listing forms both exist)  *)
(* or a syntax / compile error positioned inside the text.                 *)
(***************************************************************************)
EXTENDS Integers, Sequences, TLC, Json, IOUtils

Obs == JsonDeserialize(IOEnv.OBS)

Verdict(o) ==
    IF o.st = "ok" THEN "ok"
    ELSE IF o.st = "timeout" THEN "no-answer"
    ELSE IF o.st = "crash" THEN "internal-failure"
    ELSE IF o.st \in {"syntax", "compile"} THEN
         (IF o.loc < 0 THEN "no-position" ELSE IF o.loc > o.len THEN "position-outside-text" ELSE "ok")
    ELSE "unknown-outcome"

VARIABLE i
Init == i = 1
Next == i <= Len(Obs) /\ PrintT(ToJson([id |-> Obs[i].id, v |-> Verdict(Obs[i])])) /\ i' = i + 1
Spec == Init /\ [][Next]_i
=============================================================================
