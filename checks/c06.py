"""C06  The compiler is total: any text yields a module or a diagnostic.

Tokens.tla lists the statement forms of the language (64 forms: every statement of the grammar,
the operators, the built-in functions) as token sequences with valid operands, a pool of tokens
(keywords, punctuation, operands of every type, fragments such as `&H`, `1E`, `'`) and the
token-level mutations: drop, duplicate, swap, replace, insert.  MC_Tokens.tla lets TLC enumerate
every text within K mutations of every form (K = 1 exhaustively; deeper by simulation), and of
the token sequences of generated whole programs.  Each text is placed in a host (declarations in
front, END and procedure bodies behind; module level or inside a SUB) and compiled at rotating
optimisation levels and debug settings; for an accepted text the binary module and the listing
are produced as well.  Trace_Total.tla gives the verdict: internal-failure (any exception other
than a syntax/compile error, with the raising function as signature), no-position,
position-outside-text, no-answer (30 s).
"""
import json
import os
import random
import re
import signal

from lib import tlc, par, gen, qb
from lib.common import Machinery

LEVEL = 'model_checking'

MC_CFG = '''SPECIFICATION Spec
CONSTANT K = %d
CONSTANT UseForms = %s
CONSTANT Sim = %s
INVARIANT TypeOK
INVARIANT Report
%s
CHECK_DEADLOCK FALSE
'''

PRE = '''DECLARE SUB sp (a%, b$)
DECLARE FUNCTION fn% (a%)
TYPE rt
  f AS INTEGER
  g AS STRING
END TYPE
DIM arr(1 TO 3) AS INTEGER
DIM rec AS rt
DIM rec2 AS rt
n% = 1
s$ = "s"
x! = 1.5
'''
POST_MAIN = '''END
SUB sp (a%, b$)
END SUB
FUNCTION fn% (a%)
  fn% = a%
END FUNCTION
'''
POST_SUB_A = '''END
SUB sp (a%, b$)
  DIM arr(1 TO 3) AS INTEGER
  DIM rec AS rt
  DIM rec2 AS rt
'''
POST_SUB_B = '''END SUB
FUNCTION fn% (a%)
  fn% = a%
END FUNCTION
'''


def render_tokens(toks):
    out = []
    line = []
    for t in toks:
        if t == '@NL':
            out.append(' '.join(line))
            line = []
        elif t.startswith('{') and t.endswith('}'):
            line.append('"%s"' % t[1:-1])
        else:
            line.append(t)
    out.append(' '.join(line))
    return '\n'.join(out) + '\n'


def host(stmt_text, where):
    if where == 'main':
        return PRE + stmt_text + POST_MAIN
    return PRE + POST_SUB_A + ''.join('  ' + l + '\n' for l in stmt_text.rstrip('\n').split('\n')) + POST_SUB_B


class _Timeout(Exception):
    pass


def _alarm(signum, frame):
    raise _Timeout()


def _job(job):
    oid, text, O, g = job
    signal.signal(signal.SIGALRM, _alarm)
    signal.alarm(30)
    try:
        r = qb.compile_text(text, O, g, want_bytes=True, want_listing=True)
    except _Timeout:
        r = {'st': 'timeout'}
    finally:
        signal.alarm(0)
    o = {'id': oid, 'st': r['st'], 'stage': r.get('stage', ''), 'loc': -1, 'len': len(text)}
    if r['st'] in ('syntax', 'compile'):
        loc = r.get('loc')
        o['loc'] = loc if isinstance(loc, int) else -1
        o['msg'] = str(r.get('msg', ''))[:60]
    elif r['st'] == 'crash':
        o['sig'] = '%s@%s:%s' % (r.get('type'), r.get('where'), r.get('stage'))
        o['msg'] = str(r.get('msg', ''))[:100]
    return o


TOKEN_RE = re.compile(r'"[^"\n]*"?|[A-Za-z][A-Za-z0-9.]*[%&!#$]?|\d+\.?\d*(?:[eEdD][+-]?\d+)?[%&!#]?|<>|<=|>=|\n|\S')


def tokenize(text):
    toks = []
    for m in TOKEN_RE.finditer(text):
        t = m.group(0)
        if t == '\n':
            toks.append('@NL')
        elif t.startswith('"'):
            toks.append('{%s}' % t.strip('"'))
        else:
            toks.append(t)
    return toks


def run(ctx):
    work = tlc.scratch_dir('qbv-c06-')
    try:
        _run(ctx, work)
    finally:
        import shutil
        shutil.rmtree(work, ignore_errors=True)


def _run(ctx, work):
    rng = random.Random(ctx.seed)
    empty = os.path.join(work, 'empty.json')
    tlc.write_json(empty, [])
    # (1) every text within one mutation of every form
    r1 = tlc.run_tlc('MC_Tokens', MC_CFG % (1, 'TRUE', 'FALSE', 'VIEW V'), env={'CASES': empty}, workers=8, timeout=3000, heap='10g')
    if r1.error or r1.invariant:
        raise Machinery('MC_Tokens K=1: %s %s' % (r1.invariant, (r1.error or '')[:800]))
    texts = {}
    for x in r1.printed:
        texts.setdefault(render_tokens(x['t']), ('form%d' % x['src'], x['d']))
    n1 = len(texts)
    # (2) deeper mutations of the forms, by simulation
    r2 = tlc.run_tlc('MC_Tokens', MC_CFG % (4, 'TRUE', 'TRUE', ''), env={'CASES': empty}, workers=1, simulate=ctx.pick(2500, 60000), depth=5, seed=ctx.seed,
                     timeout=3000, heap='6g')
    if r2.error or r2.invariant:
        raise Machinery('MC_Tokens walks: %s %s' % (r2.invariant, (r2.error or '')[:800]))
    deep = [x for x in r2.printed if x['d'] >= 2]
    rng.shuffle(deep)
    for x in deep[:ctx.pick(6000, 150000)]:
        texts.setdefault(render_tokens(x['t']), ('form%d' % x['src'], x['d']))
    n2 = len(texts) - n1
    # (3) whole generated programs, mutated
    progs = []
    for i in range(ctx.pick(6, 60)):
        prog, text, ast = gen.generate(ctx.seed * 100000 + 70000 + i, size=5, depth=2, wide=False)
        toks = tokenize(text)
        if len(toks) <= 400:
            progs.append(toks)
    ppath = os.path.join(work, 'progs.json')
    tlc.write_json(ppath, progs)
    whole = {}
    if progs:
        r3 = tlc.run_tlc('MC_Tokens', MC_CFG % (3, 'FALSE', 'TRUE', ''), env={'CASES': ppath}, workers=1, simulate=ctx.pick(1200, 30000), depth=4, seed=ctx.seed + 1,
                         timeout=3000, heap='8g')
        if r3.error or r3.invariant:
            raise Machinery('MC_Tokens programs: %s %s' % (r3.invariant, (r3.error or '')[:800]))
        pr = list(r3.printed)
        rng.shuffle(pr)
        for x in pr[:ctx.pick(3000, 60000)]:
            whole.setdefault(render_tokens(x['t']), ('prog%d' % (x['src'] - 1000), x['d']))
    # compile
    jobs = []
    meta = {}
    oid = 0
    cfgs = [(0, False), (1, True), (2, False), (0, True), (1, False), (2, True)]
    for stmt, (src, d) in texts.items():
        for where in (('main', 'sub') if (d <= 1 and not ctx.quick()) else (('main',) if oid % 4 else ('sub',))):
            text = host(stmt, where)
            for (O, g) in (cfgs if not ctx.quick() else [cfgs[oid % 6]]):
                jobs.append((oid, text, O, g))
                meta[oid] = (src, d, where, stmt, text, O, g)
                oid += 1
    for text, (src, d) in whole.items():
        for (O, g) in (cfgs if not ctx.quick() else [cfgs[oid % 6]]):
            jobs.append((oid, text, O, g))
            meta[oid] = (src, d, 'program', None, text, O, g)
            oid += 1
    obs = par.pmap(_job, jobs, chunk=40)
    verd = {}
    SH = 20000
    for si in range(0, len(obs), SH):
        opath = os.path.join(work, 'obs-%d.json' % si)
        tlc.write_json(opath, [{k: o[k] for k in ('id', 'st', 'stage', 'loc', 'len')} for o in obs[si:si + SH]])
        tr = tlc.run_tlc('Trace_Total', 'SPECIFICATION Spec\nCHECK_DEADLOCK FALSE\n', env={'OBS': opath}, workers=1, timeout=1700, heap='4g')
        if tr.error:
            raise Machinery('Trace_Total: ' + tr.error[:1200])
        for x in tr.printed:
            verd[x['id']] = x['v']
        os.unlink(opath)
    if len(verd) != len(obs):
        raise Machinery('Trace_Total: %d verdicts for %d observations' % (len(verd), len(obs)))
    stats = {}
    for o in obs:
        v = verd[o['id']]
        stats[v] = stats.get(v, 0) + 1
        if v == 'ok':
            continue
        src, d, where, stmt, text, O, g = meta[o['id']]
        trig = o.get('sig') or o.get('msg') or o['st']
        ctx.violation(v, trig, {'source': src, 'mutations': d, 'where': where, 'statement': stmt, 'program': text, 'level': O, 'debug': g,
                                'outcome': {k: o.get(k) for k in ('st', 'stage', 'loc', 'msg', 'sig')}})
    outcomes = {}
    for o in obs:
        outcomes[o['st']] = outcomes.get(o['st'], 0) + 1
    ctx.coverage.update({
        'states': r1.distinct + r2.distinct, 'transitions': r1.generated + r2.generated, 'traces_validated_against_impl': len(obs),
        'forms': 68, 'texts_one_mutation': n1, 'texts_deeper': n2, 'whole_program_texts': len(whole), 'outcomes': outcomes, 'verdicts': stats,
        'samples': [{'text': next(iter(texts))}] if texts else [],
    })


def replay(ctx, case):
    print(case.get('program'))
    r = qb.compile_text(case['program'], case['level'], case['debug'], want_bytes=True, want_listing=True)
    print({k: v for k, v in r.items() if k not in ('code', 'bytes', 'listing')})
    print(json.dumps(case.get('outcome')))
    ctx.coverage.update({'evaluations': 1, 'samples': [case.get('statement')]})
