------------------------------- MODULE Print -------------------------------
(* The PRINT statement as a transition system (property C17); the constant-   *)
(* level definitions (number text, zones, PrintText) are in PrintText.tla.    *)
EXTENDS PrintText

\* ---- the transition system ----------------------------------------------
VARIABLES todo, buf, col, done
pvars == <<todo, buf, col, done>>

PInit(items) == /\ todo = items
                /\ buf = <<>>
                /\ col = 0
                /\ done = FALSE

Write(s) == /\ buf' = buf \o s
            /\ col' = col + Len(s)

Num == /\ ~done /\ todo # <<>> /\ Head(todo).k = "num"
       /\ Write(NumText(Head(todo)) \o <<Blank>>)
       /\ todo' = Tail(todo) /\ UNCHANGED done

Str == /\ ~done /\ todo # <<>> /\ Head(todo).k = "str"
       /\ Write(Head(todo).b)
       /\ todo' = Tail(todo) /\ UNCHANGED done

Semi == /\ ~done /\ todo # <<>> /\ Head(todo).k = "semi"
        /\ todo' = Tail(todo) /\ UNCHANGED <<buf, col, done>>

Comma == /\ ~done /\ todo # <<>> /\ Head(todo).k = "comma"
         /\ Write(Pad(Zone - (col % Zone)))
         /\ todo' = Tail(todo) /\ UNCHANGED done

\* lastSep: was the last item of the statement a separator?
EndLine(lastSep) == /\ ~done /\ todo = <<>>
                    /\ IF lastSep THEN UNCHANGED <<buf, col>>
                       ELSE buf' = buf \o <<CR, LF>> /\ col' = 0
                    /\ done' = TRUE /\ UNCHANGED todo

=============================================================================
