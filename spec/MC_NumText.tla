----------------------------- MODULE MC_NumText -----------------------------
(* Model-level consistency of the spec's own operators on every INTEGER and   *)
(* on LONG boundary values: the text Print.tla writes for n has the shape     *)
(* NumText.tla demands, denotes exactly n, and the numeral scanner of         *)
(* Numeral.tla (INPUT / READ) must accept it with value n.                    *)
EXTENDS NumText, TLC
P == INSTANCE PrintText

VARIABLE n
Longs == {2147483647, -2147483647 - 1, -2147483647, 100000, -100000, 32768, -32769, 1000000000, 999999999}
Init == n \in (-32768..32767) \cup Longs
Next == UNCHANGED n
Spec == Init /\ [][Next]_n

RECURSIVE DigitsOf(_)
DigitsOf(k) == IF k < 10 THEN <<k>> ELSE Append(DigitsOf(k \div 10), k % 10)
\* exact expansion of an integer (|n| computed without negating the most negative LONG)
ExpOf(k) == LET t == P!IntText(k)
            IN [neg |-> k < 0, ip |-> StripLeadZ([i \in 1..(Len(t) - 1) |-> t[i + 1] - 48]), fp |-> <<>>]

IntRoundTrip ==
    LET t == P!IntText(n)
        ty == IF n >= -32768 /\ n <= 32767 THEN "I" ELSE "L"
        f == Field(Tail(IF t[1] = BLANK THEN t ELSE t), ty)       \* the text without a leading blank
        g == Field(IF t[1] = BLANK THEN Tail(t) ELSE t, ty)
    IN /\ Shape(t) /\ PlainInt(t)
       /\ Exact(ExpOf(n), Q(t))
       /\ SignOK(ExpOf(n), t)
       /\ g[1] = "accept" /\ g[2] = <<"I", n>>
=============================================================================
