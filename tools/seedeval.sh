#!/bin/sh
# usage: tools/seedeval.sh <PID> <seed-dir containing patch.diff demo.py meta.json> [checks...]
# Confirms the seeded change (demo passes without, fails with; repo tests pass with it), then runs
# the given checks (default: the property's own quick check) against the changed tree.
PID=$1; SD=$2; shift 2
CHECKS=${*:-$PID}
D=$(mktemp -d /tmp/qbv-seed-XXXXXX)
cp -r /repo/. "$D"/ && rm -rf "$D/.git"
( cd "$D" && PYTHONPATH="$D" /venv/bin/python "$SD/demo.py" >/tmp/qbv-demo0.$$ 2>&1; echo "demo-unchanged-exit=$?" )
( cd "$D" && patch -p1 -s < "$SD/patch.diff" ) || { echo "PATCH-FAILED"; rm -rf "$D"; exit 2; }
( cd "$D" && PYTHONPATH="$D" /venv/bin/python "$SD/demo.py" >/tmp/qbv-demo1.$$ 2>&1; echo "demo-changed-exit=$?" )
( cd "$D" && timeout 1800 /venv/bin/python -m pytest -q -p no:cacheprovider -x -q 2>&1 | tail -1 | sed 's/^/tests: /' )
cd /verif
for c in $CHECKS; do
  QBEE_REPO="$D" ./check "$c" --tier quick 2>&1 | grep -E "VIOLATION|KNOWN|OK in|VIOLATIONS in|MACHINERY" | cut -c1-200 | head -6
done
rm -rf "$D" /tmp/qbv-demo0.$$ /tmp/qbv-demo1.$$
