------------------------------- MODULE Session -------------------------------
(***************************************************************************)
(* Determinism of compilation and execution (property C20).                *)
(*                                                                         *)
(* A session is a history of requests issued in one process:               *)
(*    <<"compile", program, options>>   or   <<"run", program, script>>    *)
(* The specification says the observable result of a request is a function *)
(* of the request alone: `memo` records the first result seen for each     *)
(* request, in ANY process and environment (hash seed, working directory,  *)
(* clock), and every later occurrence must return the same result.         *)
(* The process-local state a real compiler has (registries, class          *)
(* attributes, grammar objects) appears here only as `touched`: the set of *)
(* requests already served by this process, on which the result must NOT   *)
(* depend.                                                                 *)
(***************************************************************************)
EXTENDS Integers, Sequences, FiniteSets

VARIABLES memo,      \* function: request -> result, for requests seen so far (all processes)
          touched,   \* requests served in the current process, in order
          env        \* environment of the current process
svars == <<memo, touched, env>>

SInit == memo = <<>> /\ touched = <<>> /\ env = "none"

Known(req) == \E i \in 1..Len(memo) : memo[i][1] = req
ResultOf(req) == memo[CHOOSE i \in 1..Len(memo) : memo[i][1] = req][2]

NewProcess(e) == /\ touched' = <<>> /\ env' = e /\ UNCHANGED memo

\* serving a request with an observed result; Conforms is what the property demands
Conforms(req, result) == Known(req) => ResultOf(req) = result
Serve(req, result) ==
    /\ Conforms(req, result)
    /\ memo' = IF Known(req) THEN memo ELSE Append(memo, <<req, result>>)
    /\ touched' = Append(touched, req)
    /\ UNCHANGED env
=============================================================================
