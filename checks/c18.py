"""C18  INPUT.  Spec: Input.tla (field scanner, line classification, protocol machine).

1. MC_Input: all scenarios <variable types, prompt form, pool of response lines>
   x all response histories with <= K non-final lines; model invariants; every
   behaviour printed (lines, their classes accept/reject/either, converted values).
2. spec -> code: each behaviour becomes an INPUT statement (scalar / array element /
   record field targets) in a program that continues with GOSUB/RETURN, a SUB call
   and a fall-off end; the harness feeds the lines; acceptance, prompt texts, values
   handed over, nothing left on the operand stack, and the continuation must agree.
3. code -> spec: the recorded dialogues (texts shown, lines read, values and stack
   effect at the end of the statement) of random histories are validated event by
   event by Trace_Input.tla.
"""
import json
import os
import random
from decimal import Decimal

from lib import tlc, par
from lib.common import Machinery

LEVEL = 'model_checking'
SUF = {'I': '%', 'L': '&', 'S': '!', 'D': '#', 'T': '$'}


def S(s):
    return [ord(c) for c in s]


INT_FIELDS = ['5', '-7', '+3', ' 12 ', '0', '007', '32767', '32768', '-32768', '-32769',
              '2147483647', '2147483648', '-2147483648', '-2147483649', '99999999999',
              '1.5', '2.5', '1E2', 'abc', '', ' ', '1_0', '12x', '1 2', '-', '.', '1e',
              '0x10', 'nan', 'inf', '--5', '5-', '&H10', '1,', '3e10']
FLT_FIELDS = ['1.5', '-2.25', '.5', '5.', '1E2', '1e-2', '1D2', '1.5E+3', '3.4E38', '3.5E38',
              '1E39', '1E308', '1.8E308', '1E309', '1e400', 'nan', 'inf', '-inf', 'infinity',
              '1_0', '1.2.3', '1E', 'E5', 'abc', '', '0', '-0', '100000', '123456', '1e-50',
              '+.25', ' 7 ', '1e+', '12345678', '-1e39']
STR_FIELDS = ['hello', '', ' a b ', '12', 'x;y', '?', 'Redo']
SMALL = {'I': ['5', '-7', '32768', 'x', '1.5', ''], 'L': ['70000', '-2147483649', 'y', '2'],
         'S': ['1.5', '1e39', 'inf', '-4'], 'D': ['2.25', '1E309', 'nan', '1D1'], 'T': ['ab', '', ' z ']}


def fields_for(t):
    return {'I': INT_FIELDS, 'L': INT_FIELDS, 'S': FLT_FIELDS, 'D': FLT_FIELDS, 'T': STR_FIELDS}[t]


PROMPTS = [('none', ''), ('semi', 'Value'), ('comma', 'Enter: '), ('semi', '')]


def make_scenarios(ctx, rng):
    sc = []
    for t in 'ILSDT':
        for pi, (form, p) in enumerate(PROMPTS):
            if ctx.quick() and pi != ('ILSDT'.index(t) % 4) and pi != 0:
                continue
            lines = list(fields_for(t)) + ['1,2', 'a,b,c', ',']
            sc.append({'types': [t], 'form': form, 'prompt': p, 'lines': sorted(set(lines))})
    k = 0
    for t1 in 'ILSDT':
        for t2 in 'ILSDT':
            form, p = PROMPTS[k % 4]
            k += 1
            lines = [a + ',' + b for a in SMALL[t1] for b in SMALL[t2]]
            lines += ['5', '1,2,3', ',,', '']
            sc.append({'types': [t1, t2], 'form': form, 'prompt': p, 'lines': sorted(set(lines))})
    if not ctx.quick():
        for tv in ['ILT', 'TSD', 'III', 'DTI', 'LLS']:
            form, p = PROMPTS[k % 4]
            k += 1
            lines = [','.join([rng.choice(SMALL[t]) for t in tv]) for _ in range(20)]
            lines += ['1,2', '1,2,3,4', ',,', ',,,', ','.join('s' if t == 'T' else '1' for t in tv)]
            sc.append({'types': list(tv), 'form': form, 'prompt': p, 'lines': sorted(set(lines))})
    return sc


def target(t, j):
    """lvalue text for variable type t, statement j (rotating scalar/element/field)."""
    kind = j % 3
    if kind == 0:
        return 'v%s%s' % (t.lower(), SUF[t])
    if kind == 1:
        return 'q%s%s(%d)' % (t.lower(), SUF[t], 1 + j % 3)
    return 'r.f%s' % t.lower()


def build_program(cases):
    """cases: list of {types, form, prompt}.  One INPUT statement per case."""
    L = ['TYPE rec', '  fi AS INTEGER', '  fl AS LONG', '  fs AS SINGLE', '  fd AS DOUBLE', '  ft AS STRING',
         'END TYPE', 'DIM r AS rec', 'DIM qi%(3), ql&(3), qs!(3), qd#(3), qt$(3)']
    for j, c in enumerate(cases):
        tg = ', '.join(target(t, j + i) for i, t in enumerate(c['types']))
        same = ';' if (j % 5 == 4) else ''
        if c['form'] == 'none':
            L.append('INPUT %s%s' % (same + ' ' if same else '', tg))
        else:
            L.append('INPUT %s"%s"%s %s' % (same, c['prompt'], ';' if c['form'] == 'semi' else ',', tg))
    L += ['GOSUB fin', 'tail', 'PRINT "end"', 'GOTO done', 'fin: PRINT "gs": RETURN', 'done:',
          'SUB tail', '  PRINT "sub"', 'END SUB']
    return '\n'.join(L) + '\n'


def shortest(v, t):
    """exact identification of a float for TLC: <<"F", neg, mant, e10>> of its shortest
    round-trip decimal (numpy.float32 / python float repr), mant < 2^31 else -1."""
    import math
    if math.isnan(v) or math.isinf(v):
        return ['F', False, -1, 0]
    if t == 'S':
        import numpy
        r = repr(float(numpy.float32(v))) if False else str(numpy.float32(v))
    else:
        r = repr(float(v))
    d = Decimal(r)
    sign, digits, exp = d.as_tuple()
    digits = list(digits)
    while len(digits) > 1 and digits[-1] == 0:
        digits.pop()
        exp += 1
    mant = int(''.join(map(str, digits)))
    if mant == 0:
        return ['F', False, 0, 0]
    if mant >= 2 ** 31:
        return ['F', bool(sign), -1, 0]
    return ['F', bool(sign), mant, exp]


class InputObserver:
    def __init__(self, hist_lines):
        self.hist_lines = hist_lines
        self.j = 0
        self.obs = []
        self.cur = None

    def before(self, cpu, instr, operands, rec):
        if instr is not None and instr.op == 'io' and list(operands) == [2, 8]:
            st = cpu.stack
            try:
                nvars = st[-1].value
            except Exception:
                nvars = 0
            self.cur = {'d0': len(st), 'nvars': nvars, 'e0': len(rec.events)}
            rec.lines = list(self.hist_lines[self.j]) if self.j < len(self.hist_lines) else []
            self.j += 1

    def after(self, cpu, instr, operands, rec):
        if self.cur is None:
            return
        c = self.cur
        self.cur = None
        st = cpu.stack
        base = c['d0'] - (c['nvars'] + 4)
        pushed = st[base:] if base >= 0 else []
        vals = []
        for cell in reversed(pushed[-c['nvars']:] if c['nvars'] else []):
            tn = cell.type.name
            if tn in ('INTEGER', 'LONG'):
                vals.append(['I', int(cell.value)] if -2 ** 31 <= int(cell.value) < 2 ** 31 else ['?', 0])
            elif tn == 'SINGLE':
                vals.append(shortest(cell.value, 'S'))
            elif tn == 'DOUBLE':
                vals.append(shortest(cell.value, 'D'))
            elif tn == 'STRING':
                vals.append(['T', S(cell.value)])
            else:
                vals.append(['?', 0])
        c['types_seen'] = [cell.type.name[0] for cell in reversed(pushed[-c['nvars']:])] if c['nvars'] else []
        c['vals'] = vals
        c['left'] = len(pushed) - c['nvars']
        c['events'] = rec.events[c['e0']:]
        c['trapped'] = bool(cpu.halted)
        c['unused'] = len(rec.lines)
        self.obs.append(c)


def dialogue(events):
    """recorded device events of one statement -> trace events"""
    ev = []
    cur = []
    for e in events:
        if e[0] == 'terminal_print':
            cur += S(e[1])
        elif e[0] == 'terminal_input':
            if cur:
                ev.append({'k': 'show', 'b': cur, 'v': [], 'left': 0})
                cur = []
            ev.append({'k': 'line', 'b': S(e[2]), 'v': [], 'left': 0})
    if cur:
        ev.append({'k': 'show', 'b': cur, 'v': [], 'left': 0})
    return ev


def _job(job):
    from lib import qb
    cases, O, g = job
    text = build_program(cases)
    obs = InputObserver([c['lines'] for c in cases])
    c, rec, out = qb.compile_and_run(text, O, g, script={}, observer=obs)
    if c['st'] != 'ok':
        return {'fail': 'compile', 'detail': {k: v for k, v in c.items() if k != 'code'}, 'text': text}
    res = {'text': text, 'out': out, 'obs': []}
    for o in obs.obs:
        ev = dialogue(o['events'])
        if not o['trapped'] and not rec.exhausted or o['unused'] >= 0:
            pass
        ev.append({'k': 'done', 'b': [], 'v': o['vals'], 'left': o['left']})
        res['obs'].append({'ev': ev, 'unused': o['unused'], 'types_seen': o['types_seen']})
    tail = [e[1] for e in rec.events if e[0] == 'terminal_print'][-3:]
    res['tail'] = tail
    res['exhausted'] = rec.exhausted
    return res


MC_CFG = '''SPECIFICATION Spec
CONSTANT K = %d
INVARIANT TypeOK
INVARIANT ShownShape
INVARIANT AcceptedOnlyIfOK
INVARIANT NothingBeforeAccept
INVARIANT Total
INVARIANT Report
PROPERTY NoEarly
CHECK_DEADLOCK FALSE
'''
TRACE_CFG = '''SPECIFICATION Spec
INVARIANT Report
CHECK_DEADLOCK FALSE
'''


def field_trigger(line, types, cls=None):
    """trigger class of a failing line: per field a coarse lexical class"""
    def fc(f):
        s = f.strip()
        if s == '':
            return 'empty'
        if s.lower() in ('nan', 'inf', '-inf', 'infinity'):
            return 'nan-inf'
        if '_' in s:
            return 'underscore'
        try:
            float(s.replace('D', 'E').replace('d', 'e'))
        except ValueError:
            return 'text'
        if any(ch in s for ch in '.eEdD'):
            return 'decimal'
        return 'integer'
    fs = line.split(',')
    if len(fs) != len(types):
        return 'count:%d-for-%d' % (len(fs), len(types))
    return '+'.join('%s:%s' % (t, fc(f)) for t, f in zip(types, fs))


def run(ctx):
    work = tlc.scratch_dir('qbv-c18-')
    try:
        _run(ctx, work)
    finally:
        import shutil
        shutil.rmtree(work, ignore_errors=True)


def _run(ctx, work):
    rng = random.Random(ctx.seed)
    scen = make_scenarios(ctx, rng)
    spath = os.path.join(work, 'scen.json')
    tlc.write_json(spath, [{'types': s['types'], 'form': s['form'], 'prompt': S(s['prompt']),
                            'lines': [S(l) for l in s['lines']]} for s in scen])
    K = ctx.pick(1, 2)
    r = tlc.run_tlc('MC_Input', MC_CFG % K, env={'SCEN': spath}, workers=8, timeout=1500)
    if r.error:
        if r.invariant or 'violated' in r.error:
            ctx.violation('model-invariant', r.invariant or 'NoEarly', {'tlc': r.error[:2000]})
            return
        raise Machinery('MC_Input: ' + r.error[:1500])
    beh = r.printed
    # ---- spec -> code ---------------------------------------------------------
    rng.shuffle(beh)
    nrep = ctx.pick(1500, 20000)
    sample = beh[:nrep]
    B = 20
    cfgs_all = [(0, False), (0, True), (1, False), (1, True), (2, False), (2, True)]
    jobs, metas = [], []
    for bi in range(0, len(sample), B):
        batch = sample[bi:bi + B]
        cases = []
        for b in batch:
            s = scen[b['sid'] - 1]
            lines = [s['lines'][i - 1] for i in b['hist']]
            if b['cls'][-1] != 'accept':
                # the implementation may refuse an "either" line: keep a line it must accept in reserve
                lines.append(','.join('s' if t == 'T' else '1' for t in s['types']))
            cases.append({'types': s['types'], 'form': s['form'], 'prompt': s['prompt'], 'lines': lines})
        O, g = cfgs_all[(bi // B) % 6]
        jobs.append((cases, O, g))
        metas.append(batch)
    results = par.pmap(_job, jobs)
    replayed = 0
    tcases = []
    for (cases, O, g), batch, res in zip(jobs, metas, results):
        if 'fail' in res:
            ctx.violation(res['fail'], str(res['detail'].get('type', res['detail'].get('st'))),
                          {'program': res['text'], 'cfg': [O, g], 'detail': res['detail']})
            continue
        ok_all = True
        for j, (case, b) in enumerate(zip(cases, batch)):
            if j >= len(res['obs']):
                # an earlier statement ended the run
                ok_all = False
                break
            replayed += 1
            o = res['obs'][j]
            s = scen[b['sid'] - 1]
            v = compare_behaviour(b, case, o, s)
            tcases.append({'tid': len(tcases), 'types': s['types'], 'form': s['form'], 'prompt': S(s['prompt']),
                           'ev': o['ev'], 'src': case, 'cfg': [O, g]})
            if v:
                clause, line = v
                ctx.violation(clause, field_trigger(line, s['types']),
                              {'types': s['types'], 'form': s['form'], 'prompt': s['prompt'], 'lines': case['lines'],
                               'failing_line': line, 'cfg': [O, g], 'observed': o, 'expected': b})
                ok_all = False
        if ok_all:
            if res['out'].get('how') != 'halt' or res['out'].get('depth') != 0 or \
                    res['tail'] != ['gs\r\n', 'sub\r\n', 'end\r\n']:
                ctx.violation('continuation', str(res['out'].get('trap', res['out'].get('how'))),
                              {'program': res['text'], 'cfg': [O, g], 'out': res['out'], 'tail': res['tail'],
                               'lines': [c['lines'] for c in cases]})
        elif res['out'].get('how') == 'host-exception':
            ctx.violation('host-exception', '%s@%s' % (res['out']['type'], res['out']['where']),
                          {'program': res['text'], 'cfg': [O, g], 'out': res['out']})
    # ---- code -> spec: validate the recorded dialogues ------------------------
    verdicts = validate(work, tcases)
    ntr = 0
    for c, v in zip(tcases, verdicts):
        ntr += 1
        if v['verdict'] != 'ok':
            # the event at which the trace spec stopped
            ev = c['ev']
            li = v['l'] - 1
            line = ''
            for e in ev[:li + 1][::-1]:
                if e['k'] == 'line':
                    line = bytes(e['b']).decode('latin-1')
                    break
            ctx.violation('trace:' + v['verdict'], field_trigger(line, c['types']),
                          {'types': c['types'], 'form': c['form'], 'cfg': c['cfg'], 'lines': c['src']['lines'],
                           'failing_line': line, 'events': ev, 'verdict': v})
    demo = binding_demo(work, [c for c, v in zip(tcases, verdicts) if v['verdict'] == 'ok'])
    classes = {}
    for b in beh:
        for c in b['cls']:
            classes[c] = classes.get(c, 0) + 1
    ctx.coverage.update({
        'states': r.distinct, 'transitions': r.generated,
        'traces_validated_against_impl': ntr,
        'behaviours_from_tlc': len(beh), 'behaviours_replayed': replayed,
        'scenarios': len(scen), 'line_classes_in_behaviours': classes,
        'exhaustive': True,
        'exhaustive_bound': 'all histories of <= %d non-final lines + 1 final line over each scenario pool' % K,
        'binding_demo': demo,
        'samples': [{'types': scen[beh[0]['sid'] - 1]['types'], 'form': scen[beh[0]['sid'] - 1]['form'],
                     'lines': [scen[beh[0]['sid'] - 1]['lines'][i - 1] for i in beh[0]['hist']],
                     'classes': beh[0]['cls']}],
    })
    ctx.assumptions += ['float values compared only when the field has <= 6 (SINGLE) / 9 (DOUBLE) significant digits; '
                        'the recorder identifies a float by its shortest round-trip decimal (numpy/python repr)',
                        'response lines contain no quote characters']
    if demo['rejected'] != demo['corrupted']:
        raise Machinery('binding demonstration failed: %r' % demo)


def val_ok(sv, ov, t):
    if sv[0] == 'skip':
        return True
    if sv[0] == 'F' and t == 'S' and len(str(sv[2])) > 6:
        return True
    return list(sv) == list(ov)


def compare_behaviour(b, case, o, s):
    """walks the expected behaviour against the observed dialogue.  Returns None or (clause, line)."""
    ev = o['ev']
    prompt = b['prompt']
    i = 0
    pend = []
    cls_all = list(b['cls'])
    lv_all = list(b['lv'])
    if len(case['lines']) > len(cls_all):
        cls_all.append('accept')
        lv_all.append([['skip'] for _ in s['types']])
    for j, (line, cls, lv) in enumerate(zip(case['lines'], cls_all, lv_all)):
        if i >= len(ev) or ev[i]['k'] != 'show' or ev[i]['b'] != pend + prompt:
            if not (prompt == [] and pend == [] and i < len(ev) and ev[i]['k'] == 'line'):
                return ('prompt-text', line)
        else:
            i += 1
        if i >= len(ev) or ev[i]['k'] != 'line' or ev[i]['b'] != S(line):
            return ('line-not-read', line)
        i += 1
        nxt = ev[i] if i < len(ev) else {'k': 'none'}
        if nxt['k'] == 'done':
            if cls == 'reject':
                return ('accepted-bad-line', line)
            if nxt['left'] != 0:
                return ('left-on-stack', line)
            if len(nxt['v']) != len(lv):
                return ('value-count', line)
            for sv, ov, t in zip(lv, nxt['v'], s['types']):
                if not val_ok(sv, ov, t):
                    return ('value', line)
            if o['types_seen'] != [t if t != 'T' else 'S' for t in s['types']] and \
                    o['types_seen'] != [{'I': 'I', 'L': 'L', 'S': 'S', 'D': 'D', 'T': 'S'}[t] for t in s['types']]:
                return ('value-type', line)
            return None
        if cls == 'accept':
            return ('rejected-good-line', line)
        pend = S('Redo from start\r\n')
    return ('no-acceptance', case['lines'][-1] if case['lines'] else '')


def validate(work, tcases, name='traces.json'):
    if not tcases:
        return []
    path = os.path.join(work, name)
    tlc.write_json(path, [{'tid': c['tid'], 'types': c['types'], 'form': c['form'], 'prompt': c['prompt'],
                           'ev': c['ev']} for c in tcases])
    r = tlc.run_tlc('Trace_Input', TRACE_CFG, env={'CASES': path}, workers=1, timeout=1500)
    if r.error:
        raise Machinery('Trace_Input: ' + r.error[:1500])
    by = {v['tid']: v for v in r.printed}
    if len(by) != len(tcases):
        raise Machinery('Trace_Input: %d verdicts for %d traces' % (len(by), len(tcases)))
    return [by[c['tid']] for c in tcases]


def binding_demo(work, good):
    demo = []
    for c in good[:60]:
        ev = c['ev']
        # (a) drop the first "show" event (a removed prompt), (b) corrupt a value, (c) pretend a cell was left
        if ev and ev[0]['k'] == 'show':
            d = dict(c)
            d['ev'] = ev[1:]
            demo.append(d)
        d = dict(c)
        last = dict(ev[-1])
        last['left'] = 1
        d['ev'] = ev[:-1] + [last]
        demo.append(d)
    for i, d in enumerate(demo):
        d['tid'] = i
    v = validate(work, demo, 'demo.json')
    return {'corrupted': len(demo), 'rejected': sum(1 for x in v if x['verdict'] != 'ok')}


def replay(ctx, case):
    from lib import qb
    print(json.dumps({k: v for k, v in case.items() if k not in ('observed', 'expected', 'events')}, indent=1)[:3000])
    if 'types' in case and 'lines' in case:
        cases = [{'types': case['types'], 'form': case['form'], 'prompt': case.get('prompt', ''), 'lines': case['lines']}]
        O, g = case.get('cfg', [0, False])
        res = _job((cases, O, g))
        print(res.get('text'))
        print(json.dumps(res.get('out')), res.get('tail'))
        for o in res.get('obs', []):
            for e in o['ev']:
                print(e['k'], repr(bytes(e['b']).decode('latin-1')), e['v'], e['left'])
    ctx.coverage.update({'evaluations': 1, 'distinct_nontrivial': 2, 'samples': [case.get('failing_line', '')]})
