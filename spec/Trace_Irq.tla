------------------------------ MODULE Trace_Irq ------------------------------
(* One case per <program, boundary k>: the machine was ticked k times, an      *)
(* interrupt was requested (what the OS signal does), one more tick was taken. *)
(* Recorded: digests of stack / frames / globals / device history before and   *)
(* after that tick, halted, reason, trap, whether a handler was armed.         *)
EXTENDS Irq, TLC, Json, IOUtils, Sequences
Cases == JsonDeserialize(IOEnv.CASES)
VARIABLES cid, phase, verdict
vars == <<cid, phase, verdict, k, mem, irq, armed, halted, trap>>
C == Cases[cid]

Init == /\ cid \in 1..Len(Cases) /\ phase = "start" /\ verdict = "run"
        /\ k = Cases[cid].k /\ mem = Cases[cid].pre /\ irq = FALSE /\ armed = Cases[cid].armed
        /\ halted = FALSE /\ trap = ""

Step ==
  /\ verdict = "run"
  /\ IF phase = "start" THEN Interrupt /\ phase' = "irq" /\ UNCHANGED <<cid, verdict>>
     ELSE \* the recorded tick must be TickIrq
        LET clause == IF C.armed THEN "ok"             \* with a handler armed the property does not apply
                      ELSE IF ~C.halted THEN "not-halted"
                      ELSE IF C.reason # "TRAP" \/ C.trap # "KEYBOARD_INTERRUPT" THEN "wrong-trap"
                      ELSE IF C.post[1] # C.pre[1] THEN "stack-changed"
                      ELSE IF C.post[2] # C.pre[2] THEN "frames-changed"
                      ELSE IF C.post[3] # C.pre[3] THEN "globals-changed"
                      ELSE IF C.post[4] # C.pre[4] THEN "device-activity"
                      ELSE IF C.post[5] # C.pre[5] THEN "pc-moved"
                      ELSE "ok"
        IN /\ verdict' = clause /\ phase' = "done"
           /\ (IF clause = "ok" /\ ~C.armed THEN TickIrq ELSE UNCHANGED <<k, mem, irq, armed, halted, trap>>)
           /\ UNCHANGED cid
Spec == Init /\ [][Step]_vars
Report == verdict # "run" => PrintT(ToJson([tid |-> C.tid, verdict |-> verdict, l |-> C.k]))
=============================================================================
