"""C09  Binary module, loader, disassembler and assembly listing agree.

Module.tla is the decoding automaton of the container and of the instruction encodings
(opcode numbering and operand widths are a constant extracted from qvm/instrs.py).  For each
accepted program the harness records the module bytes and five streams: what the compiler
emitted, what QModule.parse recovered, what the CPU decoder sees, what disassemble() prints,
what the listing shows.  TLC decodes the bytes item by item; every stream must coincide with
the decoding at every item, and the structural invariants are evaluated on the decoded code
(jump / call / ON ERROR targets are instruction starts, variable operands lie inside the
frame declared by the routine's FRAME instruction or inside the global area, literal indexes
exist, the listing's labels denote the instruction that follows them).
"""
import json
import os
import random
import re
import struct

from lib import tlc, par, gen
from lib.common import Machinery
from checks import c03

LEVEL = 'model_checking'
CFGS = [(0, False), (0, True), (1, False), (1, True), (2, False), (2, True)]
TRACE_CFG = '''SPECIFICATION Spec
INVARIANT Report
CHECK_DEADLOCK FALSE
'''
STRESS = [
    ('literals', ''.join('PRINT "lit%déß░"\n' % i for i in range(40)) + 'PRINT ""\nPRINT "lit3éß░"\n'),
    ('data', 'DATA 1, , "", "a,b", x y ,\nl1: DATA\nl2: DATA "é", ñ, 3.5\n20 DATA ' + ', '.join(str(i) for i in range(60)) + '\nREAD a%\nRESTORE l2\nREAD b$\nPRINT a%; b$\n'),
    ('routines', ''.join('DECLARE SUB s%d (a%%, b$)\n' % i for i in range(8)) + ''.join('s%d %d, "x"\n' % (i, i) for i in range(8)) + 'GOSUB g1: GOSUB g2: GOTO fin\ng1: PRINT 1: RETURN\ng2: PRINT 2: RETURN\nfin: PRINT 3\n' +
     ''.join('SUB s%d (a%%, b$)\nDIM big%d&(20)\nFOR i%% = 1 TO 2\nSELECT CASE a%%\nCASE %d: big%d&(i%%) = a%%\nCASE ELSE\nEND SELECT\nNEXT\nPRINT b$; a%%\nEND SUB\n' % (i, i, i, i) for i in range(8))),
    ('storage', 'TYPE inner\n a AS INTEGER\n b AS LONG\nEND TYPE\nTYPE outer\n i AS inner\n s AS STRING\n k AS inner\nEND TYPE\n'
                'DECLARE SUB f (p AS outer, q%(), n%)\nDIM g(1 TO 2, 1 TO 3) AS outer\nDIM SHARED sh(2, 1) AS inner\nDIM SHARED one AS outer\n'
                'n% = 2\nDIM d(1 TO n%) AS LONG\nDIM v%(4)\nx = 1\ng(2, 3).k.b = 7\nsh(1, 1).a = 3\nf g(1, 1), v%(), n%\nPRINT g(2, 3).k.b; sh(1, 1).a\n'
                'SUB f (p AS outer, q%(), n%)\n DIM lc(1 TO 2, 1 TO 2, 1 TO 2) AS inner\n STATIC st AS LONG\n DIM lr AS outer\n y$ = "a"\n lc(2, 2, 2).b = n%\n'
                ' lr.k.a = q%(1)\n st = st + 1\nEND SUB\n'),
    ('errhand', 'ON ERROR GOTO h\nx% = 1 \\ z%\nON ERROR RESUME NEXT\ny% = 1 \\ z%\nON ERROR GOTO 0\nEND\nh: RESUME NEXT\n'),
    ('numbers', 'PRINT 1; 2; -1; -2; 0; 3; 32767; 100000; 2147483647; 1.5; 2.5#; 1E+30; 1D+300; .1; .1#\na! = 0: b# = 1: c& = 2: d% = -2: e! = -1: f# = 2: g& = -1\n'),
]


def instr_table():
    from lib import qb  # noqa
    from qvm import instrs
    kind = {'UInt8': ('u8', 1), 'Int16': ('i16', 2), 'UInt16': ('u16', 2), 'Int32': ('i32', 4), 'Label': ('lab', 4),
            'Float32': ('f32', 4), 'Float64': ('f64', 8), 'StringLiteral': ('lit', 2)}
    t = []
    for ins in instrs.instructions:
        ks = [kind[o.__name__] for o in ins.operands]
        t.append({'op': ins.op, 'code': ins.op_code, 'w': [k[1] for k in ks], 'k': [k[0] for k in ks]})
    return t


def enc(kind, v, lits=None):
    if kind == 'u8':
        return list(struct.pack('>B', v & 0xff))
    if kind == 'i16':
        return list(struct.pack('>h', v))
    if kind == 'u16':
        return list(struct.pack('>H', v & 0xffff))
    if kind == 'i32':
        return list(struct.pack('>i', v))
    if kind == 'lab':
        return list(struct.pack('>I', v & 0xffffffff))
    if kind == 'f32':
        return list(struct.pack('>f', v))
    if kind == 'f64':
        return list(struct.pack('>d', v))
    if kind == 'lit':
        return list(struct.pack('>H', v))
    raise ValueError(kind)


def b437(s):
    return list(s.encode('cp437', 'replace'))


DECL_RE = re.compile(r'^\s+([A-Za-z_][A-Za-z0-9_]*)(\(([^)]*)\))?\s+(\S+)\s*$')


def declarations(lst):
    """the declarations the listing shows: .types, .globals, .routines; and the FRAME operands of each routine"""
    def section(name):
        m = re.search(r'^\.' + name + r'\n(.*?)(?=^;;;;|\Z)', lst, re.S | re.M)
        return m.group(1) if m else ''

    def decl(line):
        m = DECL_RE.match(line)
        if not m:
            return None
        t, paren, dims = m.group(1), m.group(2), m.group(3)
        d = {'t': t, 'dims': [], 'dyn': False}
        if paren is not None:
            if dims.strip() == '':
                d['dyn'] = True
            else:
                for part in dims.split(','):
                    lo, hi = part.lower().split(' to ')
                    d['dims'].append([int(lo), int(hi)])
        return d
    types = []
    cur = None
    for line in section('types').splitlines():
        if re.match(r'^[A-Za-z_][A-Za-z0-9_]*:$', line):
            cur = {'n': line[:-1], 'fields': []}
            types.append(cur)
        elif cur is not None and line.strip():
            m = DECL_RE.match(line)
            if m:
                cur['fields'].append(m.group(1))
    globs = [d for d in (decl(l) for l in section('globals').splitlines()) if d]
    routines = []
    cur = None
    for line in section('routines').splitlines():
        mm = re.match(r'^([A-Za-z_][A-Za-z0-9_%&!#$]*):$', line)
        if mm:
            cur = {'n': mm.group(1), 'p': -1, 'v': -1, 'vars': []}
            routines.append(cur)
        elif cur is not None:
            d = decl(line)
            if d:
                cur['vars'].append(d)
    # FRAME operands: the first instruction behind the routine's entry label
    frames = {}
    body = lst.split('.code', 1)[1] if '.code' in lst else ''
    lab = None
    for line in body.splitlines():
        s_ = line.strip()
        mm = re.match(r'^_(?:sub|func)_(\S+):$', s_)
        if mm:
            lab = mm.group(1)
            continue
        if lab is not None and s_.startswith('frame'):
            a, b = s_.split(None, 1)[1].split(',')
            frames[lab] = (int(a), int(b))
            lab = None
        elif s_ and not s_.endswith(':'):
            lab = None
    for r_ in routines:
        key = r_['n'] if r_['n'] != '_main' else '_main'
        if key in frames:
            r_['p'], r_['v'] = frames[key]
    return {'types': types, 'globals': globs, 'routines': routines}


def _job(job):
    from lib import qb
    name, text, O, g = job
    if text is None:
        prog, text, ast = gen.generate(name, size=10, depth=3, wide=True)
    c = qb.compile_text(text, O, g, want_listing=True)
    if c['st'] != 'ok':
        return {'name': name, 'fail': c['st'], 'detail': {k: v for k, v in c.items() if k not in ('code', 'bytes', 'listing')}, 'text': text, 'cfg': [O, g]}
    from qbee.utils import Empty
    from qvm.memlayout import get_type_size
    from qvm.machine import QvmMachine
    code = c['code']
    raw = c['bytes']
    table = {t['op']: t for t in instr_table()}
    sec = qb.split_sections(raw)
    try:
        mod = qb.load_module(raw)
    except BaseException as e:
        return {'name': name, 'fail': 'load', 'detail': {'type': type(e).__name__, 'where': qb.where_of(e)}, 'text': text, 'cfg': [O, g]}
    # emitted
    em_ins = [i.final[0] for i in code._instrs if not i.final[0].startswith('_')]
    em = {'lits': [b437(l) for l in code._string_literals],
          'data': [[([-1] if it == Empty.value else b437(it)) for it in part] for part in code._data.values()],
          'nglob': sum(get_type_size(code.compilation, vt) for vt in code._globals.values()),
          'ins': em_ins}
    ld = {'lits': [b437(l) for l in mod.literals],
          'data': [[([-1] if it == Empty.value else b437(it)) for it in part] for part in mod.data],
          'nglob': mod.n_global_cells}
    # cpu decoder
    import io as _io
    import contextlib
    with contextlib.redirect_stdout(_io.StringIO()):
        m = QvmMachine(mod, impl=qb.Recorder({}))
    cpu = []
    a = 0
    while a < len(mod.code):
        ins, ops, size = m.cpu.get_instruction_at(a)
        if ins is None:
            cpu.append({'a': a, 'op': '?', 'raw': []})
            a += 1
            continue
        kinds = table[ins.op]['k']
        r = []
        for k, v in zip(kinds, ops):
            if k == 'lit':
                v = mod.literals.index(v)
            r += enc(k, v)
        cpu.append({'a': a, 'op': ins.op, 'raw': r})
        a += size
    # disassembler
    ds = []
    try:
        with contextlib.redirect_stdout(_io.StringIO()), contextlib.redirect_stderr(_io.StringIO()):
            dtext = mod.disassemble()
        for line in dtext.splitlines():
            mm = re.match(r'^([0-9a-f]{8}): (\S+)\s*(.*?)\s*(;.*)?$', line)
            if not mm:
                continue
            addr = int(mm.group(1), 16)
            op = mm.group(2)
            args = [x.strip() for x in mm.group(3).split(',')] if mm.group(3).strip() else []
            kinds = table.get(op, {'k': []})['k']
            r = []
            if len(args) != len(kinds):
                r = [-1]
            else:
                for k, x in zip(kinds, args):
                    if k in ('f32', 'f64'):
                        v = float(x)
                    else:
                        v = int(x, 16) if x.startswith('0x') else int(x)
                    r += enc(k, v)
            ds.append({'a': addr, 'op': op, 'raw': r})
    except BaseException as e:
        ds = [{'a': -1, 'op': 'disasm-failed:' + type(e).__name__, 'raw': []}]
    # listing: .code part
    ls = []
    lst = c['listing']
    body = lst.split('.code', 1)[1] if '.code' in lst else ''
    labels = {}
    pend = []
    for line in body.splitlines():
        s = line.strip()
        if not s or s.startswith(';'):
            continue
        mm = re.match(r'^([A-Za-z_][A-Za-z0-9_%&!#$@.]*):$', s)
        if mm and not line.startswith('    '):
            pend.append(mm.group(1))
            continue
        parts = s.split(None, 1)
        op = parts[0]
        arg = parts[1].strip() if len(parts) > 1 else ''
        for l in pend:
            labels[l] = len(ls) + 1
        pend = []
        ls.append({'op': op, 'arg': arg, 'target': 0})
    for l in pend:
        labels[l] = len(ls) + 1
    for e in ls:
        if e['op'] in ('jmp', 'jz', 'call') or (e['op'] == 'errhand' and e['arg'] not in ('0', '1')):
            e['target'] = labels.get(e['arg'], -1)
            if e['target'] > len(ls):
                e['target'] = -1
        del e['arg']
    return {'name': name, 'cfg': [O, g], 'text': text,
            'case': {'bytes': list(raw), 'codelen': len(sec.get(4, b'')), 'em': em, 'ld': ld, 'cpu': cpu, 'ds': ds, 'ls': ls,
                     'decl': declarations(lst)}}


def run(ctx):
    work = tlc.scratch_dir('qbv-c09-')
    try:
        _run(ctx, work)
    finally:
        import shutil
        shutil.rmtree(work, ignore_errors=True)


def validate(work, cases, tpath, name='mods.json'):
    out = []
    SH = 20
    shards = [cases[i:i + SH] for i in range(0, len(cases), SH)]
    import concurrent.futures as cf

    def one(args):
        si, shard = args
        path = os.path.join(work, '%d-%s' % (si, name))
        tlc.write_json(path, shard)
        r = tlc.run_tlc('Module', TRACE_CFG, env={'CASES': path, 'TABLE': tpath}, workers=1, timeout=1700, heap='3g')
        by = {x['tid']: x for x in r.printed}
        if r.error or len(by) != len(shard):
            if len(shard) == 1:
                raise Machinery('Module.tla failed on a case: %s' % (r.error or 'no verdict')[:1500])
            h = len(shard) // 2
            return one((si * 2 + 1000, shard[:h])) + one((si * 2 + 1001, shard[h:]))
        os.unlink(path)
        return [by[c['tid']] for c in shard]
    with cf.ThreadPoolExecutor(max_workers=7) as pool:
        for part in pool.map(one, list(enumerate(shards))):
            out += part
    return out


def _run(ctx, work):
    tpath = os.path.join(work, 'table.json')
    tlc.write_json(tpath, instr_table())
    jobs = []
    for i in range(ctx.pick(24, 1200)):
        O, g = CFGS[i % 6]
        jobs.append((ctx.seed * 100000 + 40000 + i, None, O, g))
    fixed = STRESS + [(n, t) for n, t, s in c03.FIXED]
    for k, (name, text) in enumerate(fixed):
        for (O, g) in (CFGS if not ctx.quick() else [CFGS[k % 6], CFGS[(k + 3) % 6]]):
            jobs.append((name, text, O, g))
    res = par.pmap(_job, jobs, chunk=2)
    cases, metas = [], []
    for r in res:
        if 'fail' in r:
            d = r['detail']
            trig = '%s@%s' % (d.get('type'), d.get('where')) if r['fail'] in ('crash', 'load') else '%s:%s' % (r['fail'], str(d.get('msg', ''))[:40])
            ctx.violation('rejected-or-crashed', trig, {'program': r['text'], 'cfg': r['cfg'], 'detail': d})
            continue
        c = r['case']
        if len(c['bytes']) > 60000:
            continue
        c['tid'] = len(cases)
        cases.append(c)
        metas.append(r)
    verdicts = validate(work, cases, tpath)
    ninstr = 0
    for c, m, v in zip(cases, metas, verdicts):
        ninstr += len(c['cpu'])
        if v['verdict'] != 'ok':
            k = v['l']
            op = c['cpu'][k]['op'] if k < len(c['cpu']) else '?'
            ctx.violation(v['verdict'], op if 'operand' in v['verdict'] or 'mnemonic' in v['verdict'] else 'module',
                          {'program': m['text'], 'cfg': m['cfg'], 'verdict': v, 'decoded_instructions': k,
                           'cpu_next': c['cpu'][k:k + 2], 'disasm_next': c['ds'][k:k + 2]})
    # binding demonstration: flip one byte in the code section of the recorded bytes, and shift a listing label
    import copy
    demo = []
    for c in cases[:6]:
        d = copy.deepcopy(c)
        d['tid'] = len(demo)
        off = len(d['bytes']) - d['codelen'] + (5 if not any(True for _ in ()) else 0)
        # the debug section may follow the code: locate the code section start through the cpu stream
        # (first instruction is `call`, operand 4 bytes): corrupt an operand byte of the first instruction
        idx = None
        for i in range(len(d['bytes']) - 5):
            if d['bytes'][i] == 4 and int.from_bytes(bytes(d['bytes'][i + 1:i + 5]), 'big') == d['codelen']:
                idx = i + 5
        if idx is not None:
            d['bytes'][idx + 4] ^= 1
            demo.append(d)
        d2 = copy.deepcopy(c)
        d2['tid'] = len(demo)
        js = [i for i, e in enumerate(d2['ls']) if e['target'] > 1]
        if js:
            d2['ls'][js[0]]['target'] -= 1
            demo.append(d2)
    dv = validate(work, demo, tpath, 'demo.json') if demo else []
    bd = {'corrupted': len(demo), 'rejected': sum(1 for x in dv if x['verdict'] != 'ok')}
    ctx.coverage.update({
        'states': sum(v['l'] for v in verdicts) + len(cases), 'transitions': sum(v['l'] for v in verdicts),
        'traces_validated_against_impl': len(cases), 'instructions_decoded': ninstr, 'modules': len(cases),
        'binding_demo': bd,
        'samples': [{'program': metas[0]['text'][:500], 'first_instructions': cases[0]['cpu'][:4]}] if cases else [],
    })
    ctx.assumptions += ['frame declarations and the global area are compared with the storage needed by the declarations the listing shows (.types, .globals, .routines), computed in Module.tla',
                        'the harness re-encodes decoded operand values with struct.pack to compare streams byte-wise']
    if bd['rejected'] != bd['corrupted']:
        raise Machinery('binding demonstration failed: %r' % bd)


def replay(ctx, case):
    print(case.get('program'))
    print(json.dumps({k: v for k, v in case.items() if k != 'program'}, indent=1)[:3000])
    ctx.coverage.update({'evaluations': 1, 'distinct_nontrivial': 2, 'samples': [case.get('cfg')]})
