------------------------------ MODULE MC_Input ------------------------------
(* Bounded model of Input.tla.  A scenario = <<variable types, prompt form,  *)
(* prompt text, pool of response lines>>; the environment answers with any    *)
(* pool line, at most K times before a line that must be accepted.  Every     *)
(* complete behaviour is printed for replay.                                  *)
EXTENDS Input, TLC, Json, IOUtils
CONSTANT K
Scen == JsonDeserialize(IOEnv.SCEN)

VARIABLES sid, hist
vars == <<sid, hist, phase, shown, vals>>

Sc == Scen[sid]
Line(i) == Sc.lines[i]

Init == /\ sid \in 1..Len(Scen) /\ hist = <<>> /\ IInit

Answer(i) == /\ phase = "wait"
             /\ IF Len(hist) >= K THEN LineClass(Line(i), Sc.types) = "accept" ELSE TRUE
             /\ hist' = Append(hist, i)
             /\ (Accept(Line(i), Sc.types) \/ Redo(Line(i), Sc.types))
             /\ UNCHANGED sid

Next == \/ ShowPrompt(Sc.form, Sc.prompt) /\ UNCHANGED <<sid, hist>>
        \/ \E i \in 1..Len(Sc.lines) : Answer(i)

Spec == Init /\ [][Next]_vars

\* ---- properties of the model ------------------------------------------------
TypeOK == phase \in {"prompt", "wait", "done"}
\* one prompt per round, one "Redo from start" per rejected line
ShownShape == /\ Len(shown) = 2 * Len(hist) + (CASE phase = "prompt" -> 0 [] phase = "wait" -> 1 [] phase = "done" -> -1)
              /\ \A j \in 1..Len(shown) : shown[j] = IF j % 2 = 1 THEN PromptText(Sc.form, Sc.prompt) ELSE RedoText
\* acceptance hands over exactly one value per variable, and only from a line that is not "reject"
AcceptedOnlyIfOK == phase = "done" =>
        /\ Len(vals) = Len(Sc.types)
        /\ LineClass(Line(hist[Len(hist)]), Sc.types) # "reject"
        /\ \A j \in 1..Len(hist) - 1 : LineClass(Line(hist[j]), Sc.types) # "accept"
NothingBeforeAccept == phase # "done" => vals = <<>>
Total == phase = "done" \/ ENABLED Next
NoEarly == NoEarlyAssign

Report == phase = "done" =>
    PrintT(ToJson([sid |-> sid, hist |-> hist,
                   cls |-> [j \in 1..Len(hist) |-> LineClass(Line(hist[j]), Sc.types)],
                   lv |-> [j \in 1..Len(hist) |-> LineVals(Line(hist[j]), Sc.types)],
                   prompt |-> PromptText(Sc.form, Sc.prompt)]))
=============================================================================
