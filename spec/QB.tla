--------------------------------- MODULE QB ---------------------------------
(***************************************************************************)
(* Statement-level operational semantics of the QBASIC subset the checks   *)
(* generate (properties C01, C02, C04, C10, C13).                          *)
(*                                                                         *)
(* A machine state M is a record                                           *)
(*   frames  call stack; a frame = [pi, act, env, ctl, pend, gos]          *)
(*           ctl = control stack of [path, idx, lp]: the block (addressed  *)
(*           by path inside the routine's body in the constant AST), the   *)
(*           index of the current statement, and loop state                *)
(*   store   locations -> values        arrs   <<scope,name>> -> bounds    *)
(*   nact    activation counter         status "run" | "ended" | error ... *)
(*   ev      the device event produced by the last step (or none)          *)
(* StepM(p, M) executes one statement (or one control decision) of program *)
(* p.  It is a function: the semantics is deterministic; the points the    *)
(* language leaves open are not generated (DESIGN.md, Appendix A).         *)
(***************************************************************************)
EXTENDS QBExpr

NoEv == [k |-> "none"]
NoLp == [k |-> "none"]

BodyOf(p, pi) == IF pi = 0 THEN p.main ELSE p.procs[pi].body

RECURSIVE BlockAt(_, _)
BlockAt(blk, path) ==
    IF path = <<>> THEN blk
    ELSE LET st == blk[path[1][1]]
             sub == CASE path[1][2] = "body" -> st.body
                      [] path[1][2] = "arm" -> st.arms[path[1][3]].body
                      [] path[1][2] = "els" -> st.els
                      [] path[1][2] = "case" -> st.cases[path[1][3]].body
         IN BlockAt(sub, Tail(path))

Top(M) == M.frames[Len(M.frames)]
SetTop(M, f) == [M EXCEPT !.frames[Len(M.frames)] = f]
Ent(f) == f.ctl[Len(f.ctl)]
SetEnt(f, en) == [f EXCEPT !.ctl[Len(f.ctl)] = en]
CurBlock(p, f) == BlockAt(BodyOf(p, f.pi), Ent(f).path)

Cx(p, M) == [p |-> p, fr |-> Top(M), store |-> M.store, arrs |-> M.arrs, pend |-> Top(M).pend, err |-> M.eh.err]

\* next statement of the current block; the replay log is per statement
Advance(M) == LET f == Top(M) en == Ent(f)
              IN SetTop(M, [SetEnt(f, [en EXCEPT !.idx = en.idx + 1, !.lp = NoLp]) EXCEPT !.pend = <<>>])


Push(M, en) == LET f == Top(M) IN SetTop(M, [f EXCEPT !.ctl = Append(f.ctl, en), !.pend = <<>>])
Enter(M, slot, j) == LET en == Ent(Top(M))
                     IN [Push(M, [path |-> Append(en.path, <<en.idx, slot, j>>), idx |-> 1, lp |-> NoLp]) EXCEPT !.ev = NoEv]
SetLp(M, lp) == LET f == Top(M) IN SetTop(M, [SetEnt(f, [Ent(f) EXCEPT !.lp = lp]) EXCEPT !.pend = <<>>])


\* what "the statement following the failed one" is (RESUME NEXT, ON ERROR RESUME NEXT): for a simple
\* statement the next one of its block; for the opening line of a block the first statement INSIDE the
\* block (the line after IF c THEN / ELSEIF c THEN / WHILE c / DO WHILE c is the first line of that body);
\* for the closing line of a loop (LOOP UNTIL c, NEXT) the statement after the loop.  Resuming into a FOR
\* whose bounds were never computed, or into a SELECT, is outside the model.
SkipFailed(p, M) ==
    LET f == Top(M)
        en == Ent(f)
        blk == CurBlock(p, f)
    IN IF en.idx > Len(blk) THEN [Advance(M) EXCEPT !.ev = NoEv]
       ELSE LET s == blk[en.idx] IN
            CASE s.k = "if" ->
                   LET ai == IF en.lp.k = "if" THEN en.lp.arm ELSE 1 IN
                   IF ai > Len(s.arms) THEN [Advance(M) EXCEPT !.ev = NoEv]
                   ELSE IF s.arms[ai].body = <<>> THEN [Advance(M) EXCEPT !.ev = NoEv]
                   ELSE Enter(M, "arm", ai)
              [] s.k = "while" ->
                   IF s.body = <<>> THEN [SetLp(M, NoLp) EXCEPT !.ev = NoEv] ELSE Enter(SetLp(M, [k |-> "while"]), "body", 0)
              [] s.k = "do" ->
                   IF en.lp.k = "do" /\ en.lp.again /\ s.post # "" THEN [Advance(M) EXCEPT !.ev = NoEv]
                   ELSE IF s.body = <<>> THEN [SetLp(M, [k |-> "do", again |-> TRUE]) EXCEPT !.ev = NoEv]
                   ELSE Enter(SetLp(M, [k |-> "do", again |-> FALSE]), "body", 0)
              [] s.k = "for" ->
                   IF en.lp.k = "for" THEN [Advance(M) EXCEPT !.ev = NoEv]
                   ELSE [M EXCEPT !.status = [k |-> "oom", kind |-> "resume-next-into-for", ln |-> 0], !.ev = NoEv]
              [] s.k = "select" -> [M EXCEPT !.status = [k |-> "oom", kind |-> "resume-next-into-select", ln |-> 0], !.ev = NoEv]
              [] OTHER -> [Advance(M) EXCEPT !.ev = NoEv]

\* ---- run-time errors and ON ERROR (property C10) -----------------------------------------
\* M.eh = [mode "off" | "goto" | "next", hidx (statement index of the handler label in the
\* module body), active, err (kind of the last error), rp (control stack of the module-level
\* code at the failed statement; <<>> when the error happened inside a procedure)]
Fatal(M, kind, ln) == [M EXCEPT !.status = [k |-> "error", kind |-> kind, ln |-> ln], !.ev = NoEv]
Fail(p, M, v, ln) ==
    IF IsOOM(v) THEN [M EXCEPT !.status = [k |-> "oom", kind |-> "", ln |-> ln], !.ev = NoEv]
    ELSE IF M.eh.mode = "off" \/ M.eh.active THEN Fatal(M, v[2], ln)
    ELSE LET main == M.frames[1]
             inmain == Len(M.frames) = 1
         IN IF M.eh.mode = "goto" THEN
              \* control goes to the handler in the module-level code; procedure activations are abandoned
              [M EXCEPT !.frames = <<[main EXCEPT !.ctl = <<[path |-> <<>>, idx |-> M.eh.hidx, lp |-> [k |-> "none"]]>>, !.pend = <<>>]>>,
                        !.eh = [M.eh EXCEPT !.active = TRUE, !.err = v[2], !.rp = IF inmain THEN main.ctl ELSE <<>>],
                        !.ev = NoEv]
            ELSE \* ON ERROR RESUME NEXT: the failed module-level statement is skipped
              IF inmain THEN
                  SkipFailed(p, [M EXCEPT !.frames = <<[main EXCEPT !.pend = <<>>]>>, !.eh = [M.eh EXCEPT !.err = v[2]], !.ev = NoEv])
              \* inside a procedure: the failed statement of that procedure is skipped, its activation stays
              ELSE SkipFailed(p, [SetTop(M, [Top(M) EXCEPT !.pend = <<>>]) EXCEPT !.eh = [M.eh EXCEPT !.err = v[2]], !.ev = NoEv])

WriteLoc(M, loc, v) == [M EXCEPT !.store = [l \in DOMAIN M.store \cup {loc} |-> IF l = loc THEN v ELSE M.store[l]]]

Truth(v) == IF IsFltK(v[1]) THEN v[2] # 0 ELSE v[2] # 0

\* ---- calls ---------------------------------------------------------------------------
\* bind the parameters of procedure pi to the argument descriptors; returns [ok, M, env]
RECURSIVE Bind(_, _, _, _, _, _)
Bind(p, M, pr, args, act, env) ==
    IF args = <<>> THEN [ok |-> TRUE, M |-> M, env |-> env, bad |-> OOM]
    ELSE LET i == Len(pr.params) - Len(args) + 1
             par == pr.params[i]
             a == Head(args)
             ext(loc) == [n \in DOMAIN env \cup {par.n} |-> IF n = par.n THEN loc ELSE env[n]]
         IN IF a[1] \in {"ref", "arr"} THEN Bind(p, M, pr, Tail(args), act, ext(a[2]))
            ELSE LET v == Conv(a[2], par.t)
                     tmp == <<act, "%" \o par.n, <<>>, <<>>>>
                 IN IF Bad(v) THEN [ok |-> FALSE, M |-> M, env |-> env, bad |-> v]
                    ELSE Bind(p, WriteLoc(M, tmp, v), pr, Tail(args), act, ext(tmp))

EmptyEnv == [n \in {} |-> <<>>]

Call(p, M, pi, args, ln) ==
    LET act == M.nact + 1
        b == Bind(p, M, p.procs[pi], args, act, EmptyEnv)
    IN IF ~b.ok THEN Fail(p, M, b.bad, ln)
       ELSE IF Len(M.frames) >= 40 THEN [M EXCEPT !.status = [k |-> "oom", kind |-> "depth", ln |-> ln], !.ev = NoEv]
       ELSE [b.M EXCEPT !.nact = act, !.ev = NoEv,
                        !.frames = Append(b.M.frames,
                            [pi |-> pi, act |-> act, env |-> b.env,
                             ctl |-> <<[path |-> <<>>, idx |-> 1, lp |-> NoLp]>>, pend |-> <<>>, gos |-> <<>>])]

\* leaving a procedure: a FUNCTION's value goes to the caller's replay log, a SUB's caller moves on
Return(p, M) ==
    LET f == Top(M)
        pr == p.procs[f.pi]
        rest == SubSeq(M.frames, 1, Len(M.frames) - 1)
        M1 == [M EXCEPT !.frames = rest, !.ev = NoEv]
    IN IF pr.kind = "function"
       THEN LET rv == ReadLoc(Cx(p, M), <<f.act, pr.n, <<>>, <<>>>>, pr.rt)
                c == Top(M1)
            IN SetTop(M1, [c EXCEPT !.pend = Append(c.pend, rv)])
       ELSE Advance(M1)

\* ---- evaluation plumbing ----------------------------------------------------------------
\* handles the three outcomes of an evaluation; Cont(value) is the continuation on a value
OnEval(p, M, r, ln, cont(_)) ==
    CASE r[1] = "V" -> cont(r[2])
      [] r[1] = "E" -> Fail(p, M, r[2], ln)
      [] r[1] = "N" -> Call(p, M, r[2].pi, r[2].args, ln)

LabelIdx(blk, n) == CHOOSE i \in 1..Len(blk) : blk[i].k = "label" /\ blk[i].n = n

\* ---- statements ------------------------------------------------------------------------
RECURSIVE SelectCase(_, _, _, _, _, _)
\* first case (from i) with a matching clause (from j); 0 = none; a Bad value = error in a clause
SelectCase(p, M, s, v, i, j) ==
    IF i > Len(s.cases) THEN <<"none", 0, 0>>
    ELSE IF j > Len(s.cases[i].cl) THEN SelectCase(p, M, s, v, i + 1, 1)
    ELSE LET c == s.cases[i].cl[j]
             cx == Cx(p, M)
             m == CASE c.k = "v" -> LET r == Eval(c.v, cx, 0) IN
                                    IF r[1] # "V" THEN <<"bad", r>> ELSE <<"ok", BinOp("eq", v, r[2])>>
                    [] c.k = "is" -> LET r == Eval(c.v, cx, 0) IN
                                    IF r[1] # "V" THEN <<"bad", r>> ELSE <<"ok", BinOp(c.o, v, r[2])>>
                    [] c.k = "range" -> LET lo == Eval(c.lo, cx, 0) IN
                                    IF lo[1] # "V" THEN <<"bad", lo>>
                                    ELSE LET hi == Eval(c.hi, cx, 0) IN
                                         IF hi[1] # "V" THEN <<"bad", hi>>
                                         ELSE LET a == BinOp("ge", v, lo[2]) b == BinOp("le", v, hi[2]) IN
                                              <<"ok", IF Bad(a) THEN a ELSE IF Bad(b) THEN b
                                                      ELSE IntV(IF a[2] # 0 /\ b[2] # 0 THEN -1 ELSE 0)>>
         IN IF m[1] = "bad" THEN <<"bad", m[2], s.cases[i].ln>>
            ELSE IF Bad(m[2]) THEN <<"bad", E(m[2], 0), s.cases[i].ln>>
            ELSE IF m[2][2] # 0 THEN <<"case", i, 0>>
            ELSE SelectCase(p, M, s, v, i, j + 1)

PrintItems(items, vals) ==      \* splice evaluated values back between the separators
    LET RECURSIVE Go(_, _)
        Go(i, vi) == IF i > Len(items) THEN <<>>
                     ELSE IF items[i].k = "sep" THEN <<[k |-> "sep", s |-> items[i].s, v |-> IntV(0)]>> \o Go(i + 1, vi)
                     ELSE <<[k |-> "val", s |-> "", v |-> vals[vi]]>> \o Go(i + 1, vi + 1)
    IN Go(1, 1)
ItemExprs(items) == LET RECURSIVE G(_)
                        G(i) == IF i > Len(items) THEN <<>>
                                ELSE IF items[i].k = "sep" THEN G(i + 1) ELSE <<items[i].e>> \o G(i + 1)
                    IN G(1)

\* unwinding the control stack to the innermost loop of a kind
RECURSIVE ExitLoop(_, _, _)
ExitLoop(p, f, kind) ==
    IF Len(f.ctl) = 0 THEN f
    ELSE LET blk == BlockAt(BodyOf(p, f.pi), Ent(f).path)
             en == Ent(f)
         IN IF en.idx <= Len(blk) /\ blk[en.idx].k = kind /\ en.lp.k # "none"
            THEN SetEnt(f, [en EXCEPT !.idx = en.idx + 1, !.lp = NoLp])
            ELSE ExitLoop(p, [f EXCEPT !.ctl = SubSeq(f.ctl, 1, Len(f.ctl) - 1)], kind)

ForTest(cnt, lim, step) ==
    LET z == BinOp("ge", step, <<step[1], 0, 0>>)
    IN IF Bad(z) THEN z ELSE IF z[2] # 0 THEN BinOp("le", cnt, lim) ELSE BinOp("ge", cnt, lim)

ExecStmt(p, M, s) ==
    LET f == Top(M)
        en == Ent(f)
        cx == Cx(p, M)
        ln == s.ln
    IN
    CASE s.k \in {"nop", "label"} -> [Advance(M) EXCEPT !.ev = NoEv]
      [] s.k = "let" ->
           LET r == Eval(s.e, cx, 0) IN
           OnEval(p, M, r, ln, LAMBDA v :
             LET l == LocOf(s.lv, cx, r[3]) IN
             OnEval(p, M, l, ln, LAMBDA loc :
               LET cv == Conv(v, s.lv.t) IN
               IF Bad(cv) THEN Fail(p, M, cv, ln) ELSE [Advance(WriteLoc(M, loc, cv)) EXCEPT !.ev = NoEv]))
      [] s.k = "print" ->
           LET r == EvalList(ItemExprs(s.items), cx, 0, <<>>) IN
           OnEval(p, M, r, ln, LAMBDA vals :
             [Advance(M) EXCEPT !.ev = [k |-> "print", items |-> PrintItems(s.items, vals), ln |-> ln]])
      [] s.k = "dev" ->
           LET r == EvalList(s.args, cx, 0, <<>>) IN
           OnEval(p, M, r, ln, LAMBDA vals :
             LET cv == [i \in 1..Len(vals) |-> Conv(vals[i], s.ats[i])] IN
             IF \E i \in 1..Len(cv) : Bad(cv[i]) THEN Fail(p, M, cv[CHOOSE i \in 1..Len(cv) : Bad(cv[i])], ln)
             ELSE [Advance(M) EXCEPT !.ev = [k |-> "dev", op |-> s.op, args |-> cv, ln |-> ln]])
      [] s.k = "if" ->
           \* en.lp remembers which arm is being tested
           LET ai == IF en.lp.k = "if" THEN en.lp.arm ELSE 1 IN
           IF ai > Len(s.arms) THEN (IF s.els = <<>> THEN [Advance(M) EXCEPT !.ev = NoEv] ELSE Enter(M, "els", 0))
           ELSE LET r == Eval(s.arms[ai].c, cx, 0) IN
                \* an ELSEIF is a statement of its own: errors are reported against its line
                OnEval(p, M, r, s.arms[ai].ln, LAMBDA v :
                  IF v[1] = "T" THEN Fail(p, M, Err("TYPE"), s.arms[ai].ln)
                  ELSE IF Truth(v) THEN (IF s.arms[ai].body = <<>> THEN [Advance(M) EXCEPT !.ev = NoEv] ELSE Enter(M, "arm", ai))
                  ELSE [SetLp(M, [k |-> "if", arm |-> ai + 1]) EXCEPT !.ev = NoEv])
      [] s.k = "while" ->
           LET r == Eval(s.c, cx, 0) IN
           OnEval(p, M, r, ln, LAMBDA v :
             IF Truth(v) THEN (IF s.body = <<>> THEN [SetLp(M, NoLp) EXCEPT !.ev = NoEv] ELSE Enter(SetLp(M, [k |-> "while"]), "body", 0))
             ELSE [Advance(M) EXCEPT !.ev = NoEv])
      [] s.k = "do" ->
           IF en.lp.k = "do" /\ en.lp.again /\ s.post # "" THEN
                LET r == Eval(s.postc, cx, 0) IN
                \* the condition is part of the LOOP statement: errors are reported against its line
                OnEval(p, M, r, s.loopln, LAMBDA v :
                  IF Truth(v) = (s.post = "while")
                  THEN (IF s.body = <<>> THEN [SetLp(M, [k |-> "do", again |-> TRUE]) EXCEPT !.ev = NoEv]
                        ELSE Enter(SetLp(M, [k |-> "do", again |-> FALSE]), "body", 0))
                  ELSE [Advance(M) EXCEPT !.ev = NoEv])
           ELSE IF s.pre # "" THEN
                LET r == Eval(s.prec, cx, 0) IN
                OnEval(p, M, r, ln, LAMBDA v :
                  IF Truth(v) = (s.pre = "while")
                  THEN (IF s.body = <<>> THEN [SetLp(M, [k |-> "do", again |-> TRUE]) EXCEPT !.ev = NoEv]
                        ELSE Enter(SetLp(M, [k |-> "do", again |-> FALSE]), "body", 0))
                  ELSE [Advance(M) EXCEPT !.ev = NoEv])
           ELSE (IF s.body = <<>> THEN [SetLp(M, [k |-> "do", again |-> TRUE]) EXCEPT !.ev = NoEv]
                 ELSE Enter(SetLp(M, [k |-> "do", again |-> FALSE]), "body", 0))
      [] s.k = "for" ->
           IF en.lp.k = "for" THEN
               \* back from the body: increment, test (this is the NEXT statement: its line)
               LET l == LocOf(s.v, cx, 0) IN
               OnEval(p, M, l, s.nextln, LAMBDA loc :
                 LET cur == ReadLoc(cx, loc, s.v.t)
                     nx == Conv(BinOp("add", cur, en.lp.step), s.v.t)
                 IN IF Bad(nx) THEN Fail(p, M, nx, s.nextln)
                    ELSE LET t == ForTest(nx, en.lp.lim, en.lp.step)
                             M1 == WriteLoc(M, loc, nx)
                         IN IF Bad(t) THEN Fail(p, M, t, ln)
                            ELSE IF t[2] # 0 THEN (IF s.body = <<>> THEN [M1 EXCEPT !.ev = NoEv] ELSE Enter(M1, "body", 0))
                            ELSE [Advance(M1) EXCEPT !.ev = NoEv])
           ELSE
               LET r == EvalList(<<s.from, s.to, s.step>>, cx, 0, <<>>) IN
               OnEval(p, M, r, ln, LAMBDA vs :
                 LET st == Conv(vs[1], s.v.t) lim == Conv(vs[2], s.v.t) stp == Conv(vs[3], s.v.t)
                     l == LocOf(s.v, cx, r[3])
                 IN IF Bad(st) THEN Fail(p, M, st, ln) ELSE IF Bad(lim) THEN Fail(p, M, lim, ln)
                    ELSE IF Bad(stp) THEN Fail(p, M, stp, ln)
                    ELSE OnEval(p, M, l, ln, LAMBDA loc :
                      LET M1 == SetLp(WriteLoc(M, loc, st), [k |-> "for", lim |-> lim, step |-> stp])
                          t == ForTest(st, lim, stp)
                      IN IF Bad(t) THEN Fail(p, M, t, ln)
                         ELSE IF t[2] # 0 THEN (IF s.body = <<>> THEN [M1 EXCEPT !.ev = NoEv] ELSE Enter(M1, "body", 0))
                         ELSE [Advance(M1) EXCEPT !.ev = NoEv]))
      [] s.k = "select" ->
           LET r == Eval(s.e, cx, 0) IN
           OnEval(p, M, r, ln, LAMBDA v :
             LET c == SelectCase(p, M, s, v, 1, 1) IN
             CASE c[1] = "bad" -> OnEval(p, M, c[2], c[3], LAMBDA x : M)     \* a CASE line is a statement of its own
               [] c[1] = "case" -> (IF s.cases[c[2]].body = <<>> THEN [Advance(M) EXCEPT !.ev = NoEv] ELSE Enter(M, "case", c[2]))
               [] OTHER -> (IF s.els = <<>> THEN [Advance(M) EXCEPT !.ev = NoEv] ELSE Enter(M, "els", 0)))
      [] s.k = "goto" ->
           LET root == BodyOf(p, f.pi) IN
           [SetTop(M, [f EXCEPT !.ctl = <<[path |-> <<>>, idx |-> LabelIdx(root, s.label), lp |-> NoLp]>>, !.pend = <<>>])
              EXCEPT !.ev = NoEv]
      [] s.k = "gosub" ->
           LET root == BodyOf(p, f.pi)
               back == [f.ctl EXCEPT ![Len(f.ctl)] = [en EXCEPT !.idx = en.idx + 1, !.lp = NoLp]]
           IN [SetTop(M, [f EXCEPT !.ctl = <<[path |-> <<>>, idx |-> LabelIdx(root, s.label), lp |-> NoLp]>>,
                                   !.pend = <<>>, !.gos = Append(f.gos, back)])
                 EXCEPT !.ev = NoEv]
      [] s.k = "return" ->
           IF f.gos = <<>> THEN Fail(p, M, Err("RETURN_WITHOUT_GOSUB"), ln)
           ELSE [SetTop(M, [f EXCEPT !.ctl = f.gos[Len(f.gos)], !.pend = <<>>,
                                     !.gos = SubSeq(f.gos, 1, Len(f.gos) - 1)]) EXCEPT !.ev = NoEv]
      [] s.k = "callsub" ->
           LET a == ArgList(s.args, cx, 0, <<>>) IN
           OnEval(p, M, a, ln, LAMBDA args : Call(p, M, s.pi, args, ln))
      [] s.k = "exit" ->
           IF s.what \in {"for", "do"} THEN
                [SetTop(M, [ExitLoop(p, [f EXCEPT !.ctl = SubSeq(f.ctl, 1, Len(f.ctl) - 1)], s.what) EXCEPT !.pend = <<>>])
                   EXCEPT !.ev = NoEv]
           ELSE Return(p, M)
      [] s.k = "end" -> [M EXCEPT !.status = [k |-> "ended", kind |-> "", ln |-> ln], !.ev = NoEv]
      [] s.k = "onerror" ->
           IF s.mode = "off" THEN
                (IF M.eh.active THEN Fatal(M, M.eh.err, ln)           \* ON ERROR GOTO 0 inside a handler re-raises
                 ELSE [Advance([M EXCEPT !.eh = [M.eh EXCEPT !.mode = "off"]]) EXCEPT !.ev = NoEv])
           ELSE IF M.eh.active THEN Fatal(M, "HANDLER", ln)
           ELSE IF s.mode = "next" THEN [Advance([M EXCEPT !.eh = [M.eh EXCEPT !.mode = "next"]]) EXCEPT !.ev = NoEv]
           ELSE [Advance([M EXCEPT !.eh = [M.eh EXCEPT !.mode = "goto", !.hidx = LabelIdx(BodyOf(p, 0), s.label)]]) EXCEPT !.ev = NoEv]
      [] s.k = "resume" ->
           IF ~M.eh.active THEN Fatal(M, "RESUME_WITHOUT_ERROR", ln)
           ELSE IF M.eh.rp = <<>> THEN [M EXCEPT !.status = [k |-> "oom", kind |-> "resume-after-error-in-procedure", ln |-> ln], !.ev = NoEv]
           ELSE LET back == [f EXCEPT !.ctl = M.eh.rp, !.pend = <<>>]
                    M1 == [SetTop(M, back) EXCEPT !.eh = [M.eh EXCEPT !.active = FALSE], !.ev = NoEv]
                IN IF s.next THEN [SkipFailed(p, M1) EXCEPT !.ev = NoEv] ELSE M1
      [] s.k = "dim" ->
           \* one array per DIM statement in the AST
           LET es == LET RECURSIVE G(_) G(i) == IF i > Len(s.dims) THEN <<>> ELSE <<s.dims[i].lo, s.dims[i].hi>> \o G(i + 1) IN G(1)
               r == EvalList(es, cx, 0, <<>>)
           IN OnEval(p, M, r, ln, LAMBDA vs :
                LET cv == [i \in 1..Len(vs) |-> Conv(vs[i], "L")]
                    pre == BasePrefix(cx, s.n)
                    bs == [i \in 1..Len(s.dims) |-> <<cv[2 * i - 1][2], cv[2 * i][2]>>]
                    key == <<pre[1], pre[2]>>
                IN IF \E i \in 1..Len(cv) : Bad(cv[i]) THEN Fail(p, M, cv[CHOOSE i \in 1..Len(cv) : Bad(cv[i])], ln)
                   ELSE IF \E i \in 1..Len(bs) : bs[i][1] > bs[i][2] THEN Fail(p, M, Err("SUBSCRIPT"), ln)
                   ELSE [Advance([M EXCEPT !.arrs = [a \in DOMAIN M.arrs \cup {key} |-> IF a = key THEN bs ELSE M.arrs[a]]])
                           EXCEPT !.ev = NoEv])

\* one step of the machine
StepM(p, M) ==
    LET f == Top(M)
        blk == CurBlock(p, f)
        en == Ent(f)
    IN IF en.idx <= Len(blk) THEN ExecStmt(p, M, blk[en.idx])
       ELSE IF Len(f.ctl) > 1 THEN
            \* end of a nested block: back to the statement that owns it
            LET f1 == [f EXCEPT !.ctl = SubSeq(f.ctl, 1, Len(f.ctl) - 1), !.pend = <<>>]
                pen == Ent(f1)
                owner == BlockAt(BodyOf(p, f.pi), pen.path)[pen.idx]
            IN IF owner.k \in {"for", "while"} THEN [SetTop(M, f1) EXCEPT !.ev = NoEv]
               ELSE IF owner.k = "do" THEN [SetTop(M, SetEnt(f1, [pen EXCEPT !.lp = [k |-> "do", again |-> TRUE]])) EXCEPT !.ev = NoEv]
               ELSE [Advance(SetTop(M, f1)) EXCEPT !.ev = NoEv]
       ELSE IF f.pi = 0 THEN [M EXCEPT !.status = [k |-> "ended", kind |-> "", ln |-> 0], !.ev = NoEv]
       ELSE Return(p, M)

InitM == [frames |-> <<[pi |-> 0, act |-> 0, env |-> EmptyEnv,
                        ctl |-> <<[path |-> <<>>, idx |-> 1, lp |-> NoLp]>>, pend |-> <<>>, gos |-> <<>>]>>,
          store |-> [l \in {} |-> <<>>], arrs |-> [a \in {} |-> <<>>], nact |-> 0,
          eh |-> [mode |-> "off", hidx |-> 0, active |-> FALSE, err |-> "", rp |-> <<>>],
          status |-> [k |-> "run", kind |-> "", ln |-> 0], ev |-> NoEv]
=============================================================================
