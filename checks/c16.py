"""C16  Numbers survive conversion to text and back.  Spec: NumText.tla (+ Numeral, Using digit ops).

Values travel through compiled programs on the real VM: PRINT x, STR$(x), VAL, INPUT, READ
and PRINT -x; the typed cells are read from the operand stack (exact decimal expansion by
decimal.Decimal), the texts from the terminal.  Trace_NumText.tla decides every clause of
the property per value (shape, sign, plain form / <=7 / <=17 digits, half-unit accuracy,
PRINT = STR$, negation symmetry, read-back by VAL / INPUT / READ).
All 65 536 INTEGERs are covered; LONG/SINGLE/DOUBLE at powers of two and ten with
neighbours, limits, subnormals, rounding boundaries and random bit patterns.
MC_NumText.tla checks the spec's own integer text/scan operators on every INTEGER.
"""
import json
import math
import os
import random
import struct

from lib import tlc, par
from lib.common import Machinery
from lib.obs import S

LEVEL = 'model_checking'
SUF = {'I': '%', 'L': '&', 'S': '!', 'D': '#'}

TRACE_CFG = '''SPECIFICATION Spec
INVARIANT Report
CHECK_DEADLOCK FALSE
'''
MC_CFG = '''SPECIFICATION Spec
INVARIANT IntRoundTrip
CHECK_DEADLOCK FALSE
'''


def f32(x):
    return struct.unpack('>f', struct.pack('>f', x))[0]


def next32(x, d):
    b = struct.unpack('>I', struct.pack('>f', x))[0]
    if x == 0:
        return struct.unpack('>f', struct.pack('>I', 1 if d > 0 else 0x80000001))[0]
    b += d if x > 0 else -d
    return struct.unpack('>f', struct.pack('>I', b & 0xffffffff))[0]


def float_values(t, rng, n_random, quick):
    vals = set()
    if t == 'S':
        mx = 3.4028234663852886e38
        for e in range(-149, 128):
            v = math.ldexp(1.0, e)
            vals.update([v, next32(v, 1), next32(v, -1)] if not quick or e % 4 == 0 else [v])
        for e in range(-45, 39):
            v = f32(float('1e%d' % e))
            vals.update([v, next32(v, 1), next32(v, -1)] if not quick or e % 3 == 0 else [v])
        vals.update([mx, next32(mx, -1), 1.1754943508222875e-38, 1.401298464324817e-45, 0.0])
        for s in ['0.5', '1.5', '2.5', '9999995', '999999.5', '99999.95', '9.999995', '0.1', '0.2', '0.3',
                  '1234567', '12345678', '123456789', '0.00001', '1e-5', '1e20', '16777216', '16777217',
                  '8388608.5', '0.015625', '3.1415927', '2.7182817', '1e7', '9999999', '1e-7', '0.0009999995']:
            vals.add(f32(float(s)))
        for _ in range(n_random):
            b = rng.getrandbits(32)
            v = struct.unpack('>f', struct.pack('>I', b))[0]
            if math.isfinite(v):
                vals.add(abs(v))
        vals = {f32(v) for v in vals if math.isfinite(v) and abs(v) <= mx}
    else:
        for e in list(range(-1074, 1024, 1 if not quick else 16)):
            v = math.ldexp(1.0, e)
            vals.update([v, math.nextafter(v, math.inf), math.nextafter(v, 0)])
        for e in range(-323, 309, 1 if not quick else 7):
            v = float('1e%d' % e)
            vals.update([v, math.nextafter(v, math.inf), math.nextafter(v, 0)])
        vals.update([1.7976931348623157e308, 2.2250738585072014e-308, 5e-324, 0.0])
        for s in ['0.5', '1.5', '2.5', '0.1', '0.2', '0.3', '9999999999999995', '99999999999999.95',
                  '1234567890123456', '12345678901234567', '123456789012345678', '9007199254740993',
                  '3.141592653589793', '1e16', '1e17', '1e-5', '0.1234567890123456789', '2.675', '9.995']:
            vals.add(float(s))
        for _ in range(n_random):
            b = rng.getrandbits(64)
            v = struct.unpack('>d', struct.pack('>Q', b))[0]
            if math.isfinite(v):
                vals.add(abs(v))
    out = sorted(vals)
    return out


def lit_of(v, t):
    if t == 'S':
        import numpy
        s = repr(float(v)) if v == 0 else '%.9g' % v
    else:
        s = repr(float(v))
    return s


def long_values(rng, n):
    vals = {0, 1, -1, 2147483647, -2147483648, 2147483646, -2147483647, 32767, 32768, -32768, -32769, 65535, 65536}
    for e in range(0, 31):
        vals.update([2 ** e, 2 ** e - 1, 2 ** e + 1, -(2 ** e), -(2 ** e) - 1 if e < 31 else -(2 ** e)])
    for e in range(0, 10):
        vals.update([10 ** e, 10 ** e - 1, 10 ** e + 1, -(10 ** e)])
    for _ in range(n):
        vals.add(rng.randint(-2 ** 31, 2 ** 31 - 1))
    return sorted(v for v in vals if -2 ** 31 <= v < 2 ** 31)


def program(t, items=None, lo=None, hi=None):
    s = SUF[t]
    L = []
    if items is not None:
        for i in range(0, len(items), 8):
            L.append('DATA ' + ', '.join(items[i:i + 8]))
        L.append('FOR k& = 1 TO %d' % len(items))
        L.append('  READ x' + s)
    else:
        L.append('FOR k& = %d TO %d' % (lo, hi))
        L.append('  x%s = k&' % s)
    L += ['  PRINT x' + s,
          '  s$ = STR$(x%s)' % s,
          '  PRINT s$',
          '  y%s = VAL(s$)' % s,
          '  PRINT y' + s,
          '  INPUT z' + s,
          '  PRINT z' + s]
    if t == 'I':
        L.append('  IF x% = -32768 THEN PRINT 0 ELSE PRINT -x%')
    elif t == 'L':
        L.append('  IF x& < -2147483647 THEN PRINT 0 ELSE PRINT -x&')
    else:
        L.append('  PRINT -x' + s)
    L.append('NEXT k&')
    return '\n'.join(L) + '\n'


def program_read(t, texts):
    s = SUF[t]
    L = []
    for i in range(0, len(texts), 8):
        L.append('DATA ' + ', '.join(texts[i:i + 8]))
    L += ['FOR k& = 1 TO %d' % len(texts), '  READ w' + s, '  PRINT w' + s, 'NEXT k&']
    return '\n'.join(L) + '\n'


def _run_prog(job):
    """runs one value program; returns per value the five observations"""
    from lib import qb
    from checks.c19 import PrintObserver, expansion
    text, O, g, t, kind = job
    ob = PrintObserver()

    class Feeder(qb.Recorder):
        feed = '0'
        asked = 0
        refused = []

        def terminal_input(self, same_line):
            # first request of an INPUT: the text PRINT produced; a second request means "Redo"
            if self.asked == 1:
                self.asked = 2
                self.refused.append(len(ob.calls))
                l = '0'
            else:
                self.asked = 1
                l = self.feed
            self.events.append(('terminal_input', same_line, l))
            return l

    c = qb.compile_text(text, O, g)
    if c['st'] != 'ok':
        return {'fail': 'compile', 'detail': {k: v for k, v in c.items() if k not in ('code', 'bytes')}, 'text': text}
    mod = qb.load_module(c['bytes'])
    per = 5 if kind == 'main' else 1

    class Hook:
        def before(self, cpu, instr, operands, rec):
            ob.before(cpu, instr, operands, rec)

        def after(self, cpu, instr, operands, rec):
            ob.after(cpu, instr, operands, rec)
            if instr is not None and instr.op == 'io' and list(operands) == [2, 2] and kind == 'main':
                n = len(ob.calls)
                if n % per == 1 and ob.calls[-1] and 'text' in ob.calls[-1]:
                    tx = ob.calls[-1]['text']
                    rec.feed = tx[:-2].strip() if tx.endswith('\r\n') else tx.strip()
                    rec.asked = 0
    rec, out, cpu = qb.run_module(mod, {}, budget=30000000, observer=Hook(), recorder=Feeder({}))
    calls = ob.calls
    res = {'out': out, 'rows': [], 'refused': list(rec.refused) if hasattr(rec, 'refused') else []}
    for i in range(0, len(calls) - per + 1, per):
        row = calls[i:i + per]
        if any(r is None or 'text' not in r for r in row):
            break
        res['rows'].append([{'vals': r['vals'], 'text': r['text']} for r in row])
    return res


def num_text(text):
    """text PRINT wrote for one number: strip the trailing blank and the line end"""
    if text.endswith('\r\n'):
        text = text[:-2]
    if text.endswith(' '):
        text = text[:-1]
    return text


def ex(v):
    return {'neg': v['neg'], 'ip': v['ip'], 'fp': v['fp']}


def run(ctx):
    work = tlc.scratch_dir('qbv-c16-')
    try:
        _run(ctx, work)
    finally:
        import shutil
        shutil.rmtree(work, ignore_errors=True)


def _run(ctx, work):
    rng = random.Random(ctx.seed)
    quick = ctx.quick()
    # ---- model-level check of the spec's own integer text operators -------------
    rmc = tlc.run_tlc('MC_NumText', MC_CFG, workers=8, timeout=1700)
    if rmc.error:
        if rmc.invariant:
            ctx.violation('model-invariant', rmc.invariant, {'tlc': rmc.error[:2000]})
            return
        raise Machinery('MC_NumText: ' + rmc.error[:1500])
    cfgs_all = [(0, False), (0, True), (1, False), (1, True), (2, False), (2, True)]
    jobs = []
    meta = []
    # INTEGER: all of them, in chunks
    if quick:
        # every 8th INTEGER (offset by the seed) plus all values near powers of two and ten
        iv = set(range(-32768 + ctx.seed % 8, 32768, 8)) | set(range(-130, 131))
        for e in range(0, 16):
            for d in (-1, 0, 1):
                iv.update([2 ** e + d, -(2 ** e) + d])
        for e in range(0, 5):
            for d in (-1, 0, 1):
                iv.update([10 ** e + d, -(10 ** e) + d])
        iv = sorted(v for v in iv if -32768 <= v <= 32767)
        for ci in range(0, len(iv), 600):
            items = [str(v) for v in iv[ci:ci + 600]]
            O, g = cfgs_all[(ci // 600) % 6]
            jobs.append((program('I', items=items), O, g, 'I', 'main'))
            meta.append(('I', items))
    else:
        step = 4096
        for ci, lo in enumerate(range(-32768, 32768, step)):
            O, g = cfgs_all[ci % 6]
            jobs.append((program('I', lo=lo, hi=lo + step - 1), O, g, 'I', 'main'))
            meta.append(('I', None))
    lv = long_values(rng, ctx.pick(300, 5000))
    for ci in range(0, len(lv), 250):
        items = [str(v) for v in lv[ci:ci + 250]]
        O, g = cfgs_all[(ci // 250) % 6]
        jobs.append((program('L', items=items), O, g, 'L', 'main'))
        meta.append(('L', items))
    maxdig = ctx.pick(330, 1100)
    for t in 'SD':
        fv = float_values(t, rng, ctx.pick(300, 5000), quick)
        fv = [v for v in fv if v == 0 or abs(math.log10(abs(v))) < maxdig - 20]
        for ci in range(0, len(fv), 150):
            items = [lit_of(v, t) for v in fv[ci:ci + 150]]
            O, g = cfgs_all[(ci // 150) % 6]
            jobs.append((program(t, items=items), O, g, t, 'main'))
            meta.append((t, items))
    results = par.pmap(_run_prog, jobs, chunk=1)
    cases = []
    for (t, items), job, res in zip(meta, jobs, results):
        if 'fail' in res:
            d = res['detail']
            ctx.violation('compile', '%s@%s' % (d.get('type'), d.get('where')) if d.get('st') == 'crash' else str(d.get('st')),
                          {'program': res['text'][:2000], 'detail': d})
            continue
        out = res['out']
        nexp = len(items) if items is not None else 4096
        for ri, row in enumerate(res['rows']):
            a, b, c, d_, e_ = row
            va = a['vals'][0] if a['vals'] else None
            if va is None or va['k'] != 'num':
                continue
            refused = any((ri * 5 + 3) <= r <= (ri * 5 + 4) for r in res['refused'])
            case = {'t': t, 'e': ex(va), 'ptext': S(num_text(a['text'])),
                    'stext': b['vals'][0]['b'] if b['vals'] and b['vals'][0]['k'] == 'str' else [63],
                    'ntext': S(num_text(e_['text'])) if not (va['ip'] == [] and va['fp'] == []) and e_['text'] != ' 0 \r\n' or True else [],
                    'back': [], 'cfg': [job[1], job[2]], 'lit': items[ri] if items else None}
            if t in 'IL' and e_['text'] == ' 0 \r\n' and va['neg']:
                case['ntext'] = []          # most negative value: negation not representable
            vc = c['vals'][0] if c['vals'] else None
            if vc is not None and vc['k'] == 'num':
                case['back'].append({'how': 'VAL', 'ok': True, **ex(vc)})
            vd = d_['vals'][0] if d_['vals'] else None
            if vd is not None and vd['k'] == 'num':
                case['back'].append({'how': 'INPUT', 'ok': not refused, **ex(vd)})
            cases.append(case)
        if len(res['rows']) < nexp:
            how = out.get('how')
            trig = '%s@%s' % (out.get('type'), out.get('where')) if how == 'host-exception' else str(out.get('trap', how))
            ctx.violation('run-ended:' + str(how), trig,
                          {'type': t, 'value_literal': (items[len(res['rows'])] if items and len(res['rows']) < len(items) else None),
                           'outcome': out, 'program_head': job[0][:600]})
    # ---- READ round trip: texts as DATA items --------------------------------------
    by_t = {}
    for c in cases:
        by_t.setdefault(c['t'], []).append(c)
    rjobs, rmeta = [], []
    for t, cs in by_t.items():
        sel = cs
        sel = [c for c in sel if all(ch not in bytes(c['ptext']).decode('latin-1') for ch in ',":')]
        for ci in range(0, len(sel), 300):
            chunk = sel[ci:ci + 300]
            texts = [bytes(c['ptext']).decode('latin-1').strip() for c in chunk]
            O, g = cfgs_all[(ci // 300) % 6]
            rjobs.append((program_read(t, texts), O, g, t, 'read'))
            rmeta.append(chunk)
    rres = par.pmap(_run_prog, rjobs, chunk=1)
    for chunk, job, res in zip(rmeta, rjobs, rres):
        if 'fail' in res:
            d = res['detail']
            ctx.violation('compile', '%s@%s' % (d.get('type'), d.get('where')) if d.get('st') == 'crash' else str(d.get('st')),
                          {'program': res['text'][:2000], 'detail': d})
            continue
        for c, row in zip(chunk, res['rows']):
            v = row[0]['vals'][0] if row[0]['vals'] else None
            if v is not None and v['k'] == 'num':
                c['back'].append({'how': 'READ', 'ok': True, **ex(v)})
        if len(res['rows']) < len(chunk):
            c = chunk[len(res['rows'])]
            c['back'].append({'how': 'READ', 'ok': False, 'neg': False, 'ip': [], 'fp': []})
    cases = [c for c in cases if len(c['e']['ip']) + len(c['e']['fp']) <= maxdig]
    for i, c in enumerate(cases):
        c['tid'] = i
    verdicts = validate(work, cases)
    per_type = {}
    for c, v in zip(cases, verdicts):
        per_type[c['t']] = per_type.get(c['t'], 0) + 1
        if v['verdict'] != 'ok':
            trig = magnitude_class(c)
            if v['verdict'] == 'accuracy':
                trig = c['t'] + ':' + deviation_class(c)
            ctx.violation('trace:' + v['verdict'], trig,
                          {'type': c['t'], 'printed': bytes(c['ptext']).decode('latin-1'),
                           'str': bytes(c['stext']).decode('latin-1'), 'negated': bytes(c['ntext']).decode('latin-1'),
                           'exact': c['e'], 'back': c['back'], 'cfg': c['cfg'], 'literal': c['lit']})
    good = [c for c, v in zip(cases, verdicts) if v['verdict'] == 'ok']
    demo = binding_demo(work, good)
    ctx.coverage.update({
        'states': rmc.distinct + len(cases), 'transitions': rmc.generated + len(cases),
        'traces_validated_against_impl': len(cases),
        'values_per_type': per_type,
        'exhaustive': per_type.get('I', 0) == 65536,
        'exhaustive_bound': ('every 8th INTEGER + boundaries (quick tier)' if quick else 'all 65536 INTEGER values') + '; LONG/SINGLE/DOUBLE sampled at boundaries + random bit patterns',
        'binding_demo': demo,
        'samples': [{'type': c['t'], 'printed': bytes(c['ptext']).decode('latin-1'), 'exact': c['e'], 'back': c['back']}
                    for c in (good[:1] + [g_ for g_ in good if g_['t'] == 'S'][:1])],
    })
    ctx.assumptions += ['exact decimal expansion of a float by decimal.Decimal (data the spec cannot compute)',
                        'significant digits counted without trailing zeros of the mantissa']
    if demo['rejected'] != demo['corrupted']:
        raise Machinery('binding demonstration failed: %r' % demo)


def deviation_class(c):
    """for the signature of an accuracy violation only: digits shown and the size of the
    deviation in units of the last shown digit (the verdict itself is TLC's)"""
    from decimal import Decimal, getcontext
    getcontext().prec = 1200
    try:
        e = c['e']
        E = Decimal((''.join(map(str, e['ip'])) or '0') + '.' + (''.join(map(str, e['fp'])) or '0'))
        t = bytes(c['ptext']).decode('latin-1').strip().lstrip('-').replace('D', 'E')
        T = Decimal(t)
        sign, digits, exp = T.as_tuple()
        digits = list(digits)
        while len(digits) > 1 and digits[-1] == 0:
            digits.pop()
            exp += 1
        dev = abs(E - T) / (Decimal(10) ** exp)
        band = '<=0.6u' if dev <= Decimal('0.6') else '<=1u' if dev <= 1 else '>1u'
        return '%d-digits:dev%s' % (len(digits), band)
    except Exception:
        return 'dev?'


def magnitude_class(c):
    e = c['e']
    if not e['ip'] and not e['fp']:
        return c['t'] + ':zero'
    if e['ip']:
        k = len(e['ip'])
    else:
        k = -next(i for i, d in enumerate(e['fp']) if d != 0)
    if c['t'] in 'IL':
        return '%s:%d-digits' % (c['t'], k)
    band = 'large(>=1e16)' if k > 16 else 'plain(1..1e16)' if k >= 1 else 'small(1e-4..1)' if k > -4 else 'tiny(<1e-4)'
    if c['t'] == 'S' and 8 <= k <= 16:
        band = 'single-wide(1e7..1e16)'
    return '%s:%s' % (c['t'], band)


def validate(work, cases, name='traces.json'):
    out = []
    SH = 8000
    shards = [cases[i:i + SH] for i in range(0, len(cases), SH)]
    import concurrent.futures as cf

    def one(args):
        si, shard = args
        path = os.path.join(work, '%d-%s' % (si, name))
        tlc.write_json(path, [{k: c[k] for k in ('tid', 't', 'e', 'ptext', 'stext', 'ntext', 'back')} for c in shard])
        r = tlc.run_tlc('Trace_NumText', TRACE_CFG, env={'CASES': path}, workers=1, timeout=1700, heap='3g')
        if r.error:
            raise Machinery('Trace_NumText: ' + r.error[:1500])
        by = {x['tid']: x for x in r.printed}
        if len(by) != len(shard):
            raise Machinery('Trace_NumText: %d verdicts for %d traces' % (len(by), len(shard)))
        return [by[c['tid']] for c in shard]
    with cf.ThreadPoolExecutor(max_workers=6) as pool:
        for part in pool.map(one, list(enumerate(shards))):
            out += part
    return out


def binding_demo(work, good):
    demo = []
    for c in good[:3] + [g for g in good if g['t'] == 'S'][:20] + [g for g in good if g['t'] == 'L'][:10]:
        t = list(c['ptext'])
        digs = [i for i, b in enumerate(t) if 49 <= b <= 57]
        if digs:
            d = dict(c)
            t2 = list(t)
            t2[digs[0]] = 48 + (t2[digs[0]] - 48) % 9 + 1     # change the leading digit
            d['ptext'] = t2
            d['stext'] = t2
            demo.append(d)
    for i, d in enumerate(demo):
        d['tid'] = i
    v = validate(work, demo, 'demo.json') if demo else []
    return {'corrupted': len(demo), 'rejected': sum(1 for x in v if x['verdict'] != 'ok')}


def replay(ctx, case):
    print(json.dumps(case, indent=1)[:3000])
    ctx.coverage.update({'evaluations': 1, 'distinct_nontrivial': 2, 'samples': [case.get('printed', '')]})
