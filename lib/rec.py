"""Recording source-level device events of a run (property C01 and friends): typed PRINT
items taken from the operand stack at `io terminal,print`, other device calls from the
peripherals object, the source line (debug builds) of the statement containing the `io`
instruction, and the outcome."""
from lib import obs

DEV_OPS = {'terminal_cls': 'cls', 'pcspkr_beep': 'beep', 'terminal_color': 'color', 'pcspkr_sound': 'sound',
           'pcspkr_play': 'play', 'terminal_locate': 'locate'}


def spec_value(cell):
    """VM cell -> the <<kind, a, b>> triple of QBValues.tla, plus a `big` flag"""
    tn = cell.type.name
    if tn == 'INTEGER':
        return {'v': ['I', int(cell.value), 0], 'big': False}
    if tn == 'LONG':
        return {'v': ['L', int(cell.value), 0], 'big': False}
    if tn in ('SINGLE', 'DOUBLE'):
        k = 'S' if tn == 'SINGLE' else 'D'
        x = float(cell.value)
        if x != x or x in (float('inf'), float('-inf')):
            return {'v': [k, 0, 0], 'big': True}
        n, d = x.as_integer_ratio()
        e = -(d.bit_length() - 1)
        if n == 0:
            return {'v': [k, 0, 0], 'big': False}
        while n % 2 == 0:
            n //= 2
            e += 1
        if abs(n) >= 2 ** 31 or abs(e) > 1100:
            return {'v': [k, 0, 0], 'big': True}
        return {'v': [k, n, e], 'big': False}
    if tn == 'STRING':
        return {'v': ['T', obs.S(cell.value), 0], 'big': False}
    return {'v': ['?', 0, 0], 'big': True}


def exact_text(cell):
    tn = cell.type.name
    if tn in ('INTEGER', 'LONG'):
        return str(int(cell.value))
    if tn in ('SINGLE', 'DOUBLE'):
        return repr(float(cell.value)) if float(cell.value) != 0 else '0.0'
    return str(cell.value)


def py_value(x, kind):
    class C:
        pass
    c = C()

    class T:
        pass
    c.type = T()
    c.type.name = kind
    c.value = x
    return spec_value(c)


class EventObserver:
    def __init__(self, module, raw=False):
        self.module = module
        self.events = []
        self._e0 = None
        self.raw = raw          # also keep the exact text of every printed value

    def line_of(self, cpu, pc):
        di = self.module.debug_info
        if di is None:
            return 0
        try:
            st = di.find_stmt(pc, cpu)
            return st.source_start_line if st is not None and st.source_start_line else 0
        except Exception:
            return 0

    def before(self, cpu, instr, operands, rec):
        self._e0 = None
        if instr is None or instr.op != 'io':
            return
        self._e0 = len(rec.events)
        self._pc = cpu.pc
        self._print = None
        if list(operands) == [2, 2]:
            st = cpu.stack
            try:
                n = st[-1].value
                args = st[-1 - n:-1]
            except Exception:
                return
            items = []
            i = 0
            using = False
            while i < len(args):
                code = args[i].value
                if code == 0 and i + 1 < len(args):
                    sv = spec_value(args[i + 1])
                    items.append({'k': 'val', 's': '', 'v': sv['v'], 'big': sv['big']})
                    if self.raw:
                        items[-1]['raw'] = exact_text(args[i + 1])
                    i += 2
                elif code == 1:
                    items.append({'k': 'sep', 's': ';', 'v': ['I', 0, 0], 'big': False})
                    i += 1
                elif code == 2:
                    items.append({'k': 'sep', 's': ',', 'v': ['I', 0, 0], 'big': False})
                    i += 1
                elif code == 3:
                    using = True
                    i += 2
                else:
                    i += 1
            self._print = {'k': 'print', 'items': items, 'using': using}

    def after(self, cpu, instr, operands, rec):
        if self._e0 is None:
            return
        new = rec.events[self._e0:]
        ln = self.line_of(cpu, self._pc)
        if self._print is not None:
            if any(e[0] == 'terminal_print' for e in new):
                ev = dict(self._print)
                ev['ln'] = ln
                ev['text'] = ''.join(e[1] for e in new if e[0] == 'terminal_print')
                self.events.append(ev)
            return
        for e in new:
            op = DEV_OPS.get(e[0])
            if op is None:
                continue
            args = list(e[1:])
            if op == 'color':
                args = [py_value(a, 'INTEGER') for a in args[:2]]
            elif op == 'sound':
                args = [py_value(args[0], 'INTEGER'), py_value(args[1], 'LONG')]
            elif op == 'play':
                args = [py_value(args[0], 'STRING')]
            else:
                args = []
            self.events.append({'k': 'dev', 'op': op, 'args': args, 'ln': ln})


def run_recorded(text, O, g, script=None, budget=300000):
    """compile + run with the event observer; returns dict(st=..., events, outcome)"""
    from lib import qb
    c = qb.compile_text(text, O, g)
    if c['st'] != 'ok':
        return {'st': c['st'], 'detail': {k: v for k, v in c.items() if k not in ('code', 'bytes')}}
    try:
        mod = qb.load_module(c['bytes'])
    except BaseException as e:
        return {'st': 'crash', 'detail': {'type': type(e).__name__, 'where': qb.where_of(e), 'stage': 'load'}}
    ob = EventObserver(mod)
    rec, out, cpu = qb.run_module(mod, script, budget, observer=ob)
    o = {'how': out['how'], 'trap': out.get('trap', ''), 'ln': out.get('line') or 0, 'ticks': out['ticks'],
         'depth': out['depth'], 'type': out.get('type', ''), 'where': out.get('where', ''), 'msg': out.get('msg', '')}
    return {'st': 'ok', 'events': ob.events, 'outcome': o, 'bytes': c['bytes']}
