"""C19  PRINT USING.  Spec: Using.tla (format scanner, field rendering on digit sequences).

1. MC_Using: all format strings of length <= L over {# . , + - & ! _ a blank}, scanner
   invariants, each format printed with its parts (TLC -simulate adds longer formats).
2. Each unambiguous format with >= 1 field gets value tuples from boundary pools (ties,
   carries, negative, zero, too wide); `PRINT USING f$; v1; v2[;]` is compiled and run;
   the values are taken from the operand stack at the `io terminal,print` instruction as
   exact decimal expansions, the text from the terminal; Trace_Using.tla validates
   <format, values, text> field by field.
"""
import json
import os
import random
from decimal import Decimal

from lib import tlc, par
from lib.common import Machinery
from lib.obs import S

LEVEL = 'model_checking'

MC_CFG = '''SPECIFICATION Spec
CONSTANT L = %d
INVARIANT Covers
INVARIANT FieldShape
INVARIANT LitMaximal
INVARIANT Report
CHECK_DEADLOCK FALSE
'''
TRACE_CFG = '''SPECIFICATION Spec
INVARIANT Report
CHECK_DEADLOCK FALSE
'''

NUM_POOL = ['0', '1', '-1', '.5', '-.5', '2.5', '9.995', '99.995', '.005', '123456', '1234.567',
            '-1234.567', '999.5', '.125', '1000000', '.001', '.045', '5%', '-42%', '32767%',
            '1000000&', '-123456789&', '9.995#', '2.675#', '1234567.891#', '.000123#', '-9.5', '99.5',
            '-.004', '12.345#', '0.5#', '-0.05']
STR_POOL = ['hello', 'x', 'ab cd']
LONG_FORMATS = ['###,###.##', '+##.##', '##.##-', '##.##+', '#,###', 'Total: ####.## units', '&: ###',
                '!_#&', '##.#  ##.#', '_##', '###.', '####', '#.###', '+#', '#-', '##,###,###.#', '& and &',
                '!!', '#######.####', '+###,###.##', '_&&_!', 'a#b#c', '###.##+ ###.##-', '#,###.##-']


def var_for(lit, i):
    if lit.endswith('%'):
        return 'vi%d%%' % i, lit[:-1]
    if lit.endswith('&'):
        return 'vl%d&' % i, lit[:-1]
    if lit.endswith('#'):
        return 'vd%d#' % i, lit
    return 'vs%d!' % i, lit


def expansion(x):
    """exact decimal expansion of a python number: (neg, ip digits, fp digits)"""
    d = Decimal(x)
    sign, digits, exp = d.as_tuple()
    digits = list(digits)
    if exp >= 0:
        ip = digits + [0] * exp
        fp = []
    else:
        if len(digits) <= -exp:
            digits = [0] * (-exp - len(digits)) + digits
            ip = []
            fp = digits
        else:
            ip = digits[:exp]
            fp = digits[exp:]
    while ip and ip[0] == 0:
        ip.pop(0)
    while fp and fp[-1] == 0:
        fp.pop()
    neg = bool(sign) and (bool(ip) or bool(fp))
    return neg, ip, fp


class PrintObserver:
    """captures the typed arguments of every `io terminal,print`"""

    def __init__(self):
        self.calls = []

    def before(self, cpu, instr, operands, rec):
        if instr is not None and instr.op == 'io' and list(operands) == [2, 2]:
            st = cpu.stack
            try:
                n = st[-1].value
                args = st[-1 - n:-1]
            except Exception:
                self.calls.append(None)
                return
            vals = []
            i = 0
            fmt = None
            sep_last = False
            while i < len(args):
                code = args[i].value
                if code == 0 and i + 1 < len(args):
                    c = args[i + 1]
                    tn = c.type.name
                    if tn == 'STRING':
                        vals.append({'k': 'str', 'neg': False, 'ip': [], 'fp': [], 'b': S(c.value)})
                    else:
                        neg, ip, fp = expansion(c.value)
                        vals.append({'k': 'num', 'neg': neg, 'ip': ip, 'fp': fp, 'b': [], 't': tn[0]})
                    sep_last = False
                    i += 2
                elif code in (1, 2):
                    sep_last = True
                    i += 1
                elif code == 3 and i + 1 < len(args):
                    fmt = args[i + 1].value
                    i += 2
                else:
                    i += 1
            self.calls.append({'vals': vals, 'fmt': fmt, 'sep': sep_last, 'e0': len(rec.events)})

    def after(self, cpu, instr, operands, rec):
        if instr is not None and instr.op == 'io' and list(operands) == [2, 2] and self.calls and self.calls[-1]:
            c = self.calls[-1]
            if 'text' not in c:
                c['text'] = ''.join(e[1] for e in rec.events[c['e0']:] if e[0] == 'terminal_print')
                c['trapped'] = bool(cpu.halted)


def build(cases):
    """cases: list of (fmt string, [literals], sep)"""
    L = []
    for j, (fmt, lits, sep) in enumerate(cases):
        names = []
        for i, lit in enumerate(lits):
            if lit.startswith('"'):
                names.append(lit)
            else:
                n, v = var_for(lit, j * 8 + i)
                L.append('%s = %s' % (n, v))
                names.append(n)
        L.append('PRINT USING "%s"; %s%s' % (fmt, '; '.join(names), ';' if sep else ''))
    return '\n'.join(L) + '\n'


def _job(job):
    from lib import qb
    cases, O, g = job
    out_cases = []
    # one program per case keeps a host exception of one statement from hiding the others
    # (PRINT USING is known to raise); still cheap: 2-4 lines each
    for (fmt, lits, sep) in cases:
        text = build([(fmt, lits, sep)])
        ob = PrintObserver()
        c, rec, out = qb.compile_and_run(text, O, g, observer=ob)
        r = {'fmt': fmt, 'lits': lits, 'sep': sep, 'text': text, 'cfg': [O, g]}
        if c['st'] != 'ok':
            r['fail'] = 'compile'
            r['detail'] = {k: v for k, v in c.items() if k != 'code'}
        elif out['how'] == 'host-exception':
            r['fail'] = 'host-exception'
            r['detail'] = out
        elif not ob.calls or ob.calls[-1] is None or 'text' not in ob.calls[-1]:
            r['fail'] = 'no-print'
            r['detail'] = out
        else:
            call = ob.calls[-1]
            if call.get('trapped'):
                r['fail'] = 'trap'
                r['detail'] = out
            else:
                r['obs'] = {'vals': call['vals'], 'sep': call['sep'], 'text': S(call['text']),
                            'fmt_seen': call['fmt']}
        out_cases.append(r)
    return out_cases


def fmt_trigger(parts, k):
    """signature trigger: the shape of the failing part"""
    if not parts or k < 1 or k > len(parts):
        return 'end'
    p = parts[k - 1]
    if p[0] == 'num':
        return 'num(d=%s,point=%s,group=%s,sign=%s)' % (('0' if p[2] == 0 else '+'), p[3], p[4], p[5])
    return p[0]


def run(ctx):
    work = tlc.scratch_dir('qbv-c19-')
    try:
        _run(ctx, work)
    finally:
        import shutil
        shutil.rmtree(work, ignore_errors=True)


def _run(ctx, work):
    rng = random.Random(ctx.seed)
    apath = os.path.join(work, 'alpha.json')
    tlc.write_json(apath, [35, 46, 44, 43, 45, 38, 33, 95, 97, 32])
    L = ctx.pick(4, 5)
    r = tlc.run_tlc('MC_Using', MC_CFG % L, env={'ALPHA': apath}, workers=8, timeout=1700, heap='8g')
    if r.error:
        if r.invariant:
            ctx.violation('model-invariant', r.invariant, {'tlc': r.error[:2000]})
            return
        raise Machinery('MC_Using: ' + r.error[:1500])
    fmts = r.printed
    # longer formats: simulation over a digit-heavy alphabet + a directed list
    apath2 = os.path.join(work, 'alpha2.json')
    tlc.write_json(apath2, [35, 35, 35, 35, 46, 44, 43, 45, 38, 95, 97, 32, 35, 35])
    r2 = tlc.run_tlc('MC_Using', MC_CFG % 12, env={'ALPHA': apath2}, workers=1, simulate=ctx.pick(1500, 20000),
                     depth=14, seed=ctx.seed, timeout=1700)
    if r2.error:
        if r2.invariant:
            ctx.violation('model-invariant', r2.invariant, {'tlc': r2.error[:2000]})
            return
        raise Machinery('MC_Using simulate: ' + r2.error[:1500])
    seen = set()
    allf = []
    for f in fmts + r2.printed:
        key = bytes(f['fmt'])
        if key in seen:
            continue
        seen.add(key)
        allf.append(f)
    for lf in LONG_FORMATS:
        if lf.encode() not in seen:
            seen.add(lf.encode())
            allf.append({'fmt': S(lf), 'amb': None, 'parts': None})     # scanned by Trace_Using itself
    usable = []
    for f in allf:
        if f['amb']:
            continue
        if f['parts'] is not None:
            nf = sum(1 for p in f['parts'] if p[0] in ('num', 'str', 'chr'))
            if nf == 0 or nf > 4:
                continue
            kinds = [p[0] for p in f['parts'] if p[0] in ('num', 'str', 'chr')]
        else:
            kinds = None
        usable.append((f, kinds))
    rng.shuffle(usable)
    per = ctx.pick(2, 6)
    budget = ctx.pick(6500, 200000)
    nd = ctx.pick(2, 6)
    ndirected = 0
    cases = []
    for f, kinds in usable:
        fmt = bytes(f['fmt']).decode('latin-1')
        if kinds is None:
            kinds = kinds_of(fmt)
        for _ in range(per):
            lits = []
            for kd in kinds:
                if kd == 'num':
                    lits.append(rng.choice(NUM_POOL))
                else:
                    lits.append('"%s"' % rng.choice(STR_POOL))
            cases.append((fmt, lits, rng.random() < 0.25))
        shapes = shapes_of(fmt)
        if [x[0] for x in shapes] == ['str' if kd == 'chr' else kd for kd in kinds] and 'num' in kinds:
            # shape-directed values: exact fill, carry at the rounding boundary, both signs
            for _ in range(nd):
                lits = [directed_values(sh, rng) if sh[0] == 'num' else '"%s"' % rng.choice(STR_POOL) for sh in shapes]
                cases.append((fmt, lits, rng.random() < 0.25))
                ndirected += 1
        if len(cases) >= budget:
            break
    cfgs_all = [(0, False), (0, True), (1, False), (1, True), (2, False), (2, True)]
    B = 30
    jobs = [(cases[i:i + B], *cfgs_all[(i // B) % 6]) for i in range(0, len(cases), B)]
    results = par.pmap(_job, jobs)
    tcases = []
    for res in results:
        for rr in res:
            if 'fail' in rr:
                d = rr['detail']
                if rr['fail'] == 'host-exception':
                    trig = '%s@%s' % (d.get('type'), d.get('where'))
                elif rr['fail'] == 'compile':
                    trig = '%s@%s' % (d.get('type'), d.get('where')) if d.get('st') == 'crash' else str(d.get('st'))
                else:
                    trig = str(d.get('trap', d.get('how')))
                ctx.violation(rr['fail'], trig, {'program': rr['text'], 'cfg': rr['cfg'], 'detail': d})
                continue
            o = rr['obs']
            if any(len(v['ip']) + len(v['fp']) > 70 for v in o['vals']):
                continue
            tcases.append({'tid': len(tcases), 'fmt': S(rr['fmt']), 'vals': [{k: v[k] for k in ('k', 'neg', 'ip', 'fp', 'b')} for v in o['vals']],
                           'sep': o['sep'], 'text': o['text'], 'meta': rr})
    verdicts = validate(work, tcases)
    parts_of = {bytes(f['fmt']): f['parts'] for f in allf}
    namb = 0
    for c, v in zip(tcases, verdicts):
        if v['verdict'] == 'amb':
            namb += 1
            continue
        if v['verdict'] != 'ok':
            parts = parts_of.get(bytes(c['fmt']))
            ctx.violation('trace:' + v['verdict'], fmt_trigger(parts, v['l']),
                          {'program': c['meta']['text'], 'cfg': c['meta']['cfg'], 'fmt': c['meta']['fmt'],
                           'values': c['meta']['lits'], 'observed': bytes(c['text']).decode('latin-1'),
                           'exact_values': c['vals'], 'verdict': v})
    good = [c for c, v in zip(tcases, verdicts) if v['verdict'] == 'ok']
    demo = binding_demo(work, good)
    ctx.coverage.update({
        'states': r.distinct, 'transitions': r.generated,
        'traces_validated_against_impl': len(tcases) - namb,
        'formats_enumerated': len(fmts), 'formats_ambiguous': sum(1 for f in fmts if f['amb']),
        'formats_simulated': len(r2.printed), 'formats_used': len({bytes(c['fmt']) for c in tcases}),
        'cases_run': len(cases), 'shape_directed_cases': ndirected,
        'exhaustive': True,
        'exhaustive_bound': 'all format strings of length <= %d over 10 characters (scanner); %d pool + %d shape-directed value tuples per format' % (L, per, nd),
        'binding_demo': demo,
        'samples': [{'stmt': good[0]['meta']['text'], 'text': bytes(good[0]['text']).decode('latin-1')}] if good else [],
    })
    ctx.assumptions += ['values are read from the operand stack and expanded exactly with decimal.Decimal(float)',
                        'formats outside the field grammar of Using.tla are [amb] (C07 requires only that they do not crash)']
    if demo['rejected'] != demo['corrupted']:
        raise Machinery('binding demonstration failed: %r' % demo)


def kinds_of(fmt):
    """field kinds of a directed format (python mirror used only to pick value kinds)"""
    kinds = []
    i = 0
    while i < len(fmt):
        c = fmt[i]
        if c == '_':
            i += 2
        elif c == '&' or c == '!':
            kinds.append('str')
            i += 1
        elif c == '#' or (c == '+' and i + 1 < len(fmt) and fmt[i + 1] == '#'):
            kinds.append('num')
            i += 1
            while i < len(fmt) and fmt[i] in '#,':
                i += 1
            if i < len(fmt) and fmt[i] == '.':
                i += 1
                while i < len(fmt) and fmt[i] == '#':
                    i += 1
            if c != '+' and i < len(fmt) and fmt[i] in '+-':
                i += 1
        else:
            i += 1
    return kinds


def shapes_of(fmt):
    """numeric field shapes of a format (python mirror used only to pick values): for every field
    ('str',) or ('num', positions before the point incl. commas, decimals)"""
    shapes = []
    i = 0
    while i < len(fmt):
        c = fmt[i]
        if c == '_':
            i += 2
        elif c == '&' or c == '!':
            shapes.append(('str',))
            i += 1
        elif c == '#' or (c == '+' and i + 1 < len(fmt) and fmt[i + 1] == '#'):
            j = i + 1 if c == '+' else i
            i = j
            while i < len(fmt) and fmt[i] in '#,':
                i += 1
            npos, d = i - j, 0
            if i < len(fmt) and fmt[i] == '.':
                i += 1
                while i < len(fmt) and fmt[i] == '#':
                    i += 1
                    d += 1
            if c != '+' and i < len(fmt) and fmt[i] in '+-':
                i += 1
            shapes.append(('num', npos, d))
        else:
            i += 1
    return shapes


def directed_values(shape, rng):
    """values at the edges of one numeric field: the largest value that fills it, the same with a
    fraction that carries into one more digit, the one just below the tie, each with both signs,
    for one position fewer / exactly / one more than the field has"""
    _, npos, d = shape
    k = max(1, min(9, npos + rng.choice((-1, 0, 0, 1))))
    ip = '9' * k
    frac = rng.choice(('', '.' + '9' * d + '5', '.' + '9' * d + '4', '.' + '0' * d + '5', '.' + '9' * max(d - 1, 0) + '5'))
    lit = rng.choice(('', '-')) + ip + (frac if frac != '.' else '')
    digits = k + max(len(frac) - 1, 0)
    if digits > 6 or rng.random() < 0.5:
        lit += '#'
    return lit


def validate(work, tcases, name='traces.json'):
    out = []
    SH = 3000
    for si in range(0, len(tcases), SH):
        shard = tcases[si:si + SH]
        path = os.path.join(work, '%d-%s' % (si, name))
        tlc.write_json(path, [{k: c[k] for k in ('tid', 'fmt', 'vals', 'sep', 'text')} for c in shard])
        r = tlc.run_tlc('Trace_Using', TRACE_CFG, env={'CASES': path}, workers=1, timeout=1700)
        if r.error:
            raise Machinery('Trace_Using: ' + r.error[:1500])
        by = {x['tid']: x for x in r.printed}
        if len(by) != len(shard):
            raise Machinery('Trace_Using: %d verdicts for %d traces' % (len(by), len(shard)))
        out += [by[c['tid']] for c in shard]
    return out


def binding_demo(work, good):
    demo = []
    for c in good[:50]:
        t = list(c['text'])
        digs = [i for i, b in enumerate(t) if 48 <= b <= 57]
        if digs:
            d = dict(c)
            t2 = list(t)
            t2[digs[-1]] = 90      # 'Z' can never stand in a digit position
            d['text'] = t2
            demo.append(d)
    for i, d in enumerate(demo):
        d['tid'] = i
    v = validate(work, demo, 'demo.json') if demo else []
    return {'corrupted': len(demo), 'rejected': sum(1 for x in v if x['verdict'] != 'ok')}


def replay(ctx, case):
    print(json.dumps({k: v for k, v in case.items() if k != 'exact_values'}, indent=1)[:3000])
    if 'program' in case:
        from lib import qb
        O, g = case.get('cfg', [0, False])
        c, rec, out = qb.compile_and_run(case['program'], O, g)
        print(c['st'], out)
        if rec:
            print([e for e in rec.events])
    ctx.coverage.update({'evaluations': 1, 'distinct_nontrivial': 2, 'samples': [case.get('program', '')]})
