"""C02  Optimisation and compile-time evaluation never change behaviour.

(i)  MC_ConstExpr.tla enumerates every constant expression `a op b` / `op a` over every
     operator, every ordered pair of operand types and the boundary values of each type
     (model laws: totality, typing, commutativity, quotient/remainder, trichotomy).  Each
     combination is placed in PRINT / assignment-with-conversion / CONST / static DIM bound
     contexts, compiled at -O0..-O3 (and -O2 -g) and run; Trace_QB.tla validates every
     level against the source semantics, so a level that differs from -O0 or from the spec,
     rejects, or crashes is reported.
(ii) C01's generated programs are run at -O0..-O3 and validated the same way.
"""
import json
import os
import random

from lib import tlc, par, gen
from lib.common import Machinery
from checks import c01

LEVEL = 'model_checking'
LEVELS = [(0, False), (1, False), (2, False), (3, False), (2, True)]

MC_CFG = '''SPECIFICATION Spec
INVARIANT TypeOK
INVARIANT Commutes
INVARIANT DivMod
INVARIANT Trichotomy
INVARIANT Report
CHECK_DEADLOCK FALSE
'''


def S(s):
    return [ord(c) for c in s]


# SINGLE constants written as short decimals that are not dyadic: the value is the nearest SINGLE
# (0.1 = 13421773 * 2^-27, 0.3 = 5033165 * 2^-24, 2.7 = 11324621 * 2^-22), which is inside the model's window
DECIMAL_TEXT = {('S', 13421773, -27): '0.1', ('S', 5033165, -24): '0.3', ('S', 11324621, -22): '2.7'}


def boundary(tier):
    I = [0, 1, -1, 2, 7, -7, 255, 32767, -32768]
    L = [0, 1, -3, 32768, -32769, 65536, 100000, 2147483647, -2147483648]
    Sg = [(0, 0), (1, -1), (-1, -1), (3, -1), (5, -1), (-5, -1), (3, 0), (1, -2), (16777215, 0), (-7, 2), (1, 127),
          (13421773, -27), (5033165, -24), (11324621, -22)]
    D = [(1, -1), (-3, -1), (5, -1), (1, 10), (1, -3), (1, 130), (-3, 1000)]
    T = ['', 'a', 'ab', 'B', 'a ']
    if tier == 'quick':
        I = [0, -1, 2, 7, -7, 32767, -32768]
        L = [1, -3, 32768, 2147483647, -2147483648]
        Sg = [(0, 0), (1, -1), (3, -1), (5, -1), (-5, -1), (-7, 2), (1, 127), (13421773, -27)]
        D = [(1, -1), (-3, -1), (5, -1), (1, 130)]
        T = ['', 'a', 'ab', 'B']
    b = [['I', v, 0] for v in I] + [['L', v, 0] for v in L] + [['S', m, e] for m, e in Sg] + \
        [['D', m, e] for m, e in D] + [['T', S(x), 0] for x in T]
    return b


def val_ast(v):
    k = v[0]
    if k == 'I':
        if v[1] == -32768:
            return {'k': 'par', 'a': {'k': 'bin', 'o': 'sub', 'l': {'k': 'num', 't': 'I', 'v': -32767}, 'r': {'k': 'num', 't': 'I', 'v': 1}}}
        n = {'k': 'num', 't': 'I', 'v': v[1]}
        return {'k': 'par', 'a': n} if v[1] < 0 else n
    if k == 'L':
        if v[1] == -2147483648:
            return {'k': 'par', 'a': {'k': 'bin', 'o': 'sub', 'l': {'k': 'num', 't': 'L', 'v': -2147483647}, 'r': {'k': 'num', 't': 'L', 'v': 1}}}
        n = {'k': 'num', 't': 'L', 'v': v[1]}
        return {'k': 'par', 'a': n} if v[1] < 0 else n
    if k in 'SD':
        n = {'k': 'num', 't': k, 'm': v[1], 'e': v[2]}
        if (k, v[1], v[2]) in DECIMAL_TEXT:
            n['txt'] = DECIMAL_TEXT[(k, v[1], v[2])]
        return {'k': 'par', 'a': n} if v[1] < 0 else n
    return {'k': 'str', 'b': v[1]}


def lit_text_fix(prog_text):
    return prog_text


def res_kind(res):
    return res[0]


def build_cases(combos, bnd, rng, tier):
    """groups combinations into programs; returns list of (prog dict for unparser)"""
    SUF = gen.SUF
    ok_stmts = []
    err_progs = []
    uid = [0]

    def expr_of(c):
        a = val_ast(bnd[c['i'] - 1])
        if c['j'] == 0:
            return {'k': 'un', 'o': c['op'], 'a': a if a['k'] != 'num' else a}
        b = val_ast(bnd[c['j'] - 1])
        return {'k': 'bin', 'o': c['op'], 'l': a, 'r': b}
    for c in combos:
        e = expr_of(c)
        rk = c['res'][0]
        stmts = [{'k': 'print', 'items': [{'k': 'e', 'e': e}]}]
        consts = []
        if rk in 'ILSD':
            uid[0] += 1
            t = 'ILSD'[uid[0] % 4]
            x = {'k': 'lv', 'n': 'x%d%s' % (uid[0], SUF[t]), 'ix': [], 'fl': [], 't': t}
            stmts.append({'k': 'let', 'lv': x, 'e': e})
            stmts.append({'k': 'print', 'items': [{'k': 'e', 'e': x}]})
        if rk in 'ILSDT' and uid[0] % 3 == 0:
            cn = 'c%d%s' % (uid[0], SUF[rk])
            consts.append({'n': cn, 't': rk, 'pi': 0, 'e': e})
            stmts.append({'k': 'print', 'items': [{'k': 'e', 'e': {'k': 'cst', 'n': cn, 't': rk}}]})
        fval = (c['res'][1] * 2.0 ** c['res'][2]) if rk in 'SD' and -8 <= c['res'][2] <= 4 else None
        if (rk in 'IL' and 1 <= c['res'][1] <= 12) or (fval is not None and 1 <= fval <= 12):
            # a static array bound: the compiler lays the frame out with ITS value of the bound; the element at the
            # run-time upper bound must not be the variable declared next
            an = 'a%d%%' % uid[0]
            nx = {'k': 'lv', 'n': 'n%d%%' % uid[0], 'ix': [], 'fl': [], 't': 'I'}
            ub = {'k': 'fn', 'n': 'ubound', 't': 'L', 'arr': an, 'rank': 1, 'args': [{'k': 'num', 't': 'I', 'v': 1}]}
            stmts.append({'k': 'dim', 'n': an, 'dims': [{'lo': {'k': 'num', 't': 'I', 'v': 0}, 'hi': {'k': 'par', 'a': e}, 'haslo': False}], 'rec': None, 't': 'I'})
            stmts.append({'k': 'let', 'lv': nx, 'e': {'k': 'num', 't': 'I', 'v': 5}})
            stmts.append({'k': 'let', 'lv': {'k': 'lv', 'n': an, 'ix': [ub], 'fl': [], 't': 'I'}, 'e': {'k': 'num', 't': 'I', 'v': 77}})
            stmts.append({'k': 'print', 'items': [{'k': 'e', 'e': ub}, {'k': 'sep', 's': ';'}, {'k': 'e', 'e': nx}]})
        if rk in ('ERR', 'OOM'):
            err_progs.append(([{'k': 'print', 'items': [{'k': 'e', 'e': {'k': 'str', 'b': S('go')}}]}] + stmts, consts))
        else:
            ok_stmts.append((stmts, consts))
    progs = []
    B = 20
    for i in range(0, len(ok_stmts), B):
        st, cs = [], []
        for s_, c_ in ok_stmts[i:i + B]:
            st += s_
            cs += c_
        progs.append((st, cs))
    progs += err_progs
    return progs


def _job(job):
    from lib import rec
    idx, stmts, consts = job
    prog = {'types': [], 'consts': consts, 'shared': [], 'main': gen.flatten(stmts), 'procs': []}
    text = gen.Unparser(prog).text()
    ast = gen.strip_for_tlc(prog)
    obs, fails = [], []
    for (O, g) in LEVELS:
        r = rec.run_recorded(text, O, g)
        if r['st'] != 'ok':
            fails.append({'cfg': [O, g], 'st': r['st'], 'detail': r['detail']})
            continue
        for e in r['events']:
            e.pop('text', None)
        obs.append({'cfg': 'O%d%s' % (O, 'g' if g else ''), 'events': r['events'], 'outcome': r['outcome']})
    return {'idx': idx, 'text': text, 'ast': ast, 'obs': obs, 'fails': fails}


def _gen_job(job):
    from lib import rec
    seed, size, depth = job
    prog, text, ast = gen.generate(seed, size=size, depth=depth, wide=True)
    obs, fails = [], []
    for (O, g) in LEVELS:
        r = rec.run_recorded(text, O, g)
        if r['st'] != 'ok':
            fails.append({'cfg': [O, g], 'st': r['st'], 'detail': r['detail']})
            continue
        for e in r['events']:
            e.pop('text', None)
        obs.append({'cfg': 'O%d%s' % (O, 'g' if g else ''), 'events': r['events'], 'outcome': r['outcome']})
    return {'idx': seed, 'text': text, 'ast': ast, 'obs': obs, 'fails': fails}


def run(ctx):
    work = tlc.scratch_dir('qbv-c02-')
    try:
        _run(ctx, work)
    finally:
        import shutil
        shutil.rmtree(work, ignore_errors=True)


def _run(ctx, work):
    rng = random.Random(ctx.seed)
    bnd = boundary(ctx.tier)
    bpath = os.path.join(work, 'bnd.json')
    tlc.write_json(bpath, bnd)
    r = tlc.run_tlc('MC_ConstExpr', MC_CFG, env={'BND': bpath}, workers=8, timeout=1700)
    if r.error:
        if r.invariant:
            ctx.violation('model-invariant', r.invariant, {'tlc': r.error[:2500]})
            return
        raise Machinery('MC_ConstExpr: ' + r.error[:1500])
    combos = r.printed
    if ctx.quick():
        rng.shuffle(combos)
        combos = combos[:1500]
    progs = build_cases(combos, bnd, rng, ctx.tier)
    jobs = [(i, st, cs) for i, (st, cs) in enumerate(progs)]
    res = par.pmap(_job, jobs, chunk=4)
    ngen = ctx.pick(40, 1500)
    res += par.pmap(_gen_job, [(ctx.seed * 100000 + 50000 + i, ctx.pick(10, 16), 3) for i in range(ngen)], chunk=2)
    cases = []
    for rr in res:
        seenfail = set()
        for f in rr['fails']:
            d = f['detail']
            trig = '%s@%s' % (d.get('type'), d.get('where')) if f['st'] == 'crash' else '%s:%s' % (f['st'], str(d.get('code', d.get('msg', '')))[:40])
            if len(rr['fails']) < len(LEVELS):
                clause = 'accept-mismatch'          # the levels disagree on acceptance
            else:
                clause = 'rejected-or-crashed'
            if (clause, trig) not in seenfail:
                seenfail.add((clause, trig))
                ctx.violation(clause, trig, {'program': rr['text'], 'cfg': f['cfg'], 'detail': d,
                                             'levels_failing': [x['cfg'] for x in rr['fails']]})
        if rr['obs']:
            cases.append({'tid': len(cases), 'seed': rr['idx'], 'ast': rr['ast'], 'obs': rr['obs'], 'text': rr['text']})
    verdicts = c01.validate(work, cases)
    stats = {}
    for c, v in zip(cases, verdicts):
        vds = v['verd']
        for oi, vd in enumerate(vds):
            stats[vd] = stats.get(vd, 0) + 1
            if vd in ('ok', 'oom', 'budget', 'impl-budget'):
                continue
            o = c['obs'][oi]
            pos = v['pos'][oi]
            ev = o['events'][pos - 1] if 0 < pos <= len(o['events']) else None
            ln = (ev or {}).get('ln') or o['outcome'].get('ln') or v['status'].get('ln') or 0
            if not ln:
                # non-debug build: take the line from the debug build of the same program if it failed alike,
                # else from the spec's position (statement index = event index for straight-line programs)
                ln = v['status'].get('ln') or 0
            trig = c01.stmt_at(c['ast'], ln) if ln else 'nolines'
            if trig == 'nolines' and ev is None and pos >= 1:
                trig = 'event%d' % pos
            if vd == 'host-exception':
                trig = '%s@%s' % (o['outcome'].get('type'), o['outcome'].get('where'))
            # does -O0 agree with the spec here?  then the optimiser changed behaviour
            base_ok = vds[0] in ('ok', 'oom')
            ctx.violation(('level-differs:' if base_ok and oi > 0 else '') + vd, trig + ('@' + o['cfg'] if base_ok and oi > 0 else ''),
                          {'program': c['text'], 'cfg': o['cfg'], 'verdict': vd, 'pos': pos, 'observed_event': ev,
                           'observed_outcome': o['outcome'], 'spec_status': v['status'], 'line': ln, 'all_verdicts': vds})
    wcov = windows_stage(ctx, work, rng)
    ctx.coverage.update(wcov)
    ctx.coverage.update({
        'states': r.distinct + sum(v['steps'] for v in verdicts) + wcov['window_states'], 'transitions': r.generated + sum(v['steps'] for v in verdicts),
        'traces_validated_against_impl': sum(len(c['obs']) for c in cases),
        'constant_expressions_enumerated': len(r.printed), 'constant_expressions_run': len(combos),
        'programs': len(cases), 'generated_programs': ngen, 'verdicts': stats, 'levels': ['O0', 'O1', 'O2', 'O3', 'O2g'],
        'exhaustive': not ctx.quick(),
        'samples': [{'program': cases[0]['text']}] if cases else [],
    })


PEEP_CFG = 'SPECIFICATION Spec\nCONSTANT K = %d\nINVARIANT KindAgrees\nINVARIANT Report\nCHECK_DEADLOCK FALSE\n'


def _window_job(job):
    from lib import peep
    wid, kind, w = job
    plain, opt = peep.both_runs(kind, w)
    return {'id': wid, 'w': w, 'plain': plain, 'opt': opt, 'same': json.dumps(plain, sort_keys=True) == json.dumps(opt, sort_keys=True), 'kind': kind}


def window_sig(w):
    return ','.join(e['b'] + e['t'] + (':' + e['rel'] if e['rel'] else '') for e in w)


def windows_stage(ctx, work, rng):
    """C02 (ii): the optimiser's peephole rules on every admissible instruction window (Peephole.tla)"""
    K = ctx.pick(3, 4)
    r = tlc.run_tlc('MC_Peephole', PEEP_CFG % K, workers=8, timeout=3000, heap='10g')
    if r.error or r.invariant:
        raise Machinery('MC_Peephole: %s %s' % (r.invariant, (r.error or '')[:1200]))
    wins = [(x['w'], x['t']) for x in r.printed]
    # longer windows: a sample
    r2 = tlc.run_tlc('MC_Peephole', PEEP_CFG % (K + 2), workers=1, simulate=ctx.pick(1500, 40000), depth=K + 3, seed=ctx.seed, timeout=2000, heap='6g')
    if r2.error or r2.invariant:
        raise Machinery('MC_Peephole walks: %s %s' % (r2.invariant, (r2.error or '')[:1200]))
    deep = [(x['w'], x['t']) for x in r2.printed if len(x['w']) > K]
    rng.shuffle(deep)
    seen = set()
    jobs = []
    for w, t in wins + deep[:ctx.pick(3000, 60000)]:
        key = json.dumps(w, sort_keys=True)
        if key in seen:
            continue
        seen.add(key)
        jobs.append((len(jobs), t, w))
        if t == 'I':
            jobs.append((len(jobs), 'IF', w))
    obs = par.pmap(_window_job, jobs, chunk=50)
    verd = {}
    SH = 8000
    for si in range(0, len(obs), SH):
        opath = os.path.join(work, 'win-%d.json' % si)
        tlc.write_json(opath, [{k: o[k] for k in ('id', 'w', 'plain', 'opt', 'same')} for o in obs[si:si + SH]])
        tr = tlc.run_tlc('Trace_Peephole', 'SPECIFICATION Spec\nCHECK_DEADLOCK FALSE\n', env={'OBS': opath}, workers=1, timeout=1700, heap='4g')
        if tr.error:
            raise Machinery('Trace_Peephole: ' + tr.error[:1200])
        for x in tr.printed:
            verd[x['id']] = x['r']
        os.unlink(opath)
    if len(verd) != len(obs):
        raise Machinery('Trace_Peephole: %d verdicts for %d windows' % (len(verd), len(obs)))
    stats = {}
    for o in obs:
        v = verd[o['id']]
        for which in ('plain', 'opt'):
            stats['%s:%s' % (which, v[which])] = stats.get('%s:%s' % (which, v[which]), 0) + 1
        bad = None
        if v['opt'] not in ('ok', 'oom'):
            bad = 'window-optimised:' + v['opt']
        elif v['plain'] not in ('ok', 'oom'):
            bad = 'window-plain:' + v['plain']
        elif not v['same']:
            bad = 'window:optimisation-changes-behaviour'
        if bad:
            ctx.violation(bad, window_sig(o['w']) + ('@IF' if o['kind'] == 'IF' else ''),
                          {'window': o['w'], 'slot': o['kind'], 'plain': o['plain'], 'optimised': o['opt'], 'verdict': v})
    # binding demonstration: a run with another value must be rejected
    demo = None
    for o in obs:
        if verd[o['id']]['opt'] == 'ok' and o['opt']['val'][0] in ('I', 'L'):
            demo = json.loads(json.dumps({k: o[k] for k in ('id', 'w', 'plain', 'opt', 'same')}))
            demo['opt']['val'][1] += 1
            break
    if demo is not None:
        opath = os.path.join(work, 'win-demo.json')
        tlc.write_json(opath, [demo])
        tr = tlc.run_tlc('Trace_Peephole', 'SPECIFICATION Spec\nCHECK_DEADLOCK FALSE\n', env={'OBS': opath}, workers=1, timeout=600)
        if tr.error or not tr.printed or tr.printed[0]['r']['opt'] == 'ok':
            raise Machinery('window binding demonstration failed')
    return {'window_states': r.distinct, 'windows_exhaustive_len': K, 'windows_enumerated': len(wins), 'windows_deeper': len(jobs) - len(wins),
            'window_runs': 2 * len(obs), 'window_verdicts': stats}


def replay(ctx, case):
    print(case.get('program'))
    print(json.dumps({k: v for k, v in case.items() if k != 'program'}, indent=1)[:3000])
    ctx.coverage.update({'evaluations': 1, 'distinct_nontrivial': 2, 'samples': [case.get('cfg')]})
