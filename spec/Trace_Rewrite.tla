---------------------------- MODULE Trace_Rewrite ----------------------------
(***************************************************************************)
(* Verdicts on compiled surfaces (property C14): for each surface of a     *)
(* program that Rewrite.tla's legal steps reach, the compiler's result is  *)
(* compared with that of the plain text.                                   *)
(*   st    outcome of compiling the rewritten text: "ok", "syntax",        *)
(*         "compile", "crash"                                              *)
(*   same  1 iff the literal, data, globals and code sections (1-4) are    *)
(*         byte-identical to those of the plain text                       *)
(*   beh   "same" / "differ" / "na": device interactions and outcome of a  *)
(*         run compared with the plain text's (only run when same = 0)     *)
(* The surface itself is re-checked against Rewrite!Legal and Neutral, so  *)
(* a harness that rendered something the model does not allow is caught.   *)
(***************************************************************************)
EXTENDS Integers, Sequences, FiniteSets, TLC, Json, IOUtils

Cases == JsonDeserialize(IOEnv.CASES)
Obs == JsonDeserialize(IOEnv.OBS)
R(c) == INSTANCE Rewrite WITH Stm <- Cases[c].stm, NK <- 4, NB <- 4, NN <- 4, Strict <- TRUE

SetOf(q) == {q[i] : i \in 1..Len(q)}
Surf(o) == [join |-> SetOf(o.s.join), cmt |-> SetOf(o.s.cmt), gap |-> SetOf(o.s.gap), let |-> SetOf(o.s.let),
            call |-> SetOf(o.s.call), nxt |-> SetOf(o.s.nxt), ne |-> SetOf(o.s.ne),
            kase |-> o.s.kase, blank |-> o.s.blank, names |-> o.s.names]

Verdict(o) ==
    IF ~R(o.c)!Legal(Surf(o)) \/ ~R(o.c)!Neutral(Surf(o)) THEN "surface-not-neutral"
    ELSE IF o.st = "crash" THEN "crashed"
    ELSE IF o.st # "ok" THEN "rejected"
    ELSE IF o.same = 1 THEN "ok"
    ELSE IF o.beh = "same" THEN "ok-behaviour"
    ELSE "behaviour"

VARIABLE i
Init == i = 1
Next == i <= Len(Obs) /\ PrintT(ToJson([id |-> Obs[i].id, v |-> Verdict(Obs[i])])) /\ i' = i + 1
Spec == Init /\ [][Next]_i
=============================================================================
