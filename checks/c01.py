"""C01  Compiled programs do what their source says.  Spec: QBValues, QBExpr, QB (+PrintText).

A typed generator builds ASTs and unparses them; every program is compiled in the six
configurations and run with the event observer (typed PRINT items from the operand stack,
device calls, source lines in debug builds, outcome); Trace_QB.tla executes the AST with the
source semantics and validates each configuration's recorded events and outcome.
"""
import json
import os
import random

from lib import tlc, par, gen
from lib.common import Machinery

LEVEL = 'model_checking'
CFGS = [(0, False), (0, True), (1, False), (1, True), (2, False), (2, True)]
TRACE_CFG = '''SPECIFICATION Spec
CONSTANT MaxSteps = %d
INVARIANT Report
CHECK_DEADLOCK FALSE
'''


def _job(job):
    from lib import rec
    seed, size, depth, wide = job
    try:
        prog, text, ast = gen.generate(seed, size=size, depth=depth, wide=wide)
    except Exception as e:      # a generator failure is machinery, reported by the caller
        return {'seed': seed, 'genfail': '%s: %s' % (type(e).__name__, e)}
    obs = []
    fails = []
    for (O, g) in CFGS:
        r = rec.run_recorded(text, O, g)
        if r['st'] != 'ok':
            fails.append({'cfg': [O, g], 'st': r['st'], 'detail': r['detail']})
            continue
        for e in r['events']:
            e.pop('text', None)
        obs.append({'cfg': 'O%d%s' % (O, 'g' if g else ''), 'events': r['events'], 'outcome': r['outcome']})
    return {'seed': seed, 'text': text, 'ast': ast, 'obs': obs, 'fails': fails}


def stmt_at(ast, ln):
    """kind + operator/function names of the statement on source line ln (for signatures)"""
    found = []

    def ops(e, acc):
        if isinstance(e, dict):
            if e.get('k') == 'bin' or e.get('k') == 'un':
                acc.add(e['o'])
            if e.get('k') == 'fn':
                acc.add(e['n'])
            if e.get('k') == 'call':
                acc.add('call')
            for v in e.values():
                ops(v, acc)
        elif isinstance(e, list):
            for v in e:
                ops(v, acc)

    def walk(b):
        for s in b:
            if s.get('ln') == ln:
                acc = set()
                ops({k: v for k, v in s.items() if k not in ('body', 'arms', 'cases', 'els')}, acc)
                if s['k'] == 'if':
                    for a in s['arms']:
                        ops(a['c'], acc)
                found.append((s['k'], sorted(acc)))
            for key in ('body', 'els'):
                if isinstance(s.get(key), list):
                    walk(s[key])
            for a in s.get('arms', []):
                walk(a['body'])
            for c in s.get('cases', []):
                walk(c['body'])
    walk(ast['main'])
    for p in ast['procs']:
        walk(p['body'])
    if not found:
        return 'line%d' % ln
    k, o = found[0]
    return '%s[%s]' % (k, ','.join(o))


def validate(work, cases, maxsteps=6000, name='cases.json'):
    out = []
    SH = 150
    shards = [cases[i:i + SH] for i in range(0, len(cases), SH)]
    import concurrent.futures as cf

    def one(args):
        si, shard = args
        path = os.path.join(work, '%d-%s' % (si, name))
        tlc.write_json(path, [{'tid': c['tid'], 'prog': c['ast'], 'obs': c['obs']} for c in shard])
        r = tlc.run_tlc('Trace_QB', TRACE_CFG % maxsteps, env={'CASES': path}, workers=1, timeout=1700, heap='3g')
        by = {x['tid']: x for x in r.printed}
        if r.error or len(by) != len(shard):
            # one total-operator slip aborts the whole TLC run: find the offending case
            if len(shard) == 1:
                raise Machinery('Trace_QB failed on seed %s: %s' % (shard[0].get('seed'), (r.error or 'no verdict')[:1200]))
            res = []
            h = len(shard) // 2
            res += one((si * 2 + 1000, shard[:h]))
            res += one((si * 2 + 1001, shard[h:]))
            return res
        return [by[c['tid']] for c in shard]
    with cf.ThreadPoolExecutor(max_workers=7) as pool:
        for part in pool.map(one, list(enumerate(shards))):
            out += part
    return out


def run(ctx):
    work = tlc.scratch_dir('qbv-c01-')
    try:
        _run(ctx, work)
    finally:
        import shutil
        shutil.rmtree(work, ignore_errors=True)


def features_of(prog):
    """features a random sample may or may not contain; the check selects programs so that each is present"""
    feats = set()
    types = {t['n']: [f['n'] for f in t['fields']] for t in prog.get('types', [])}

    def walk_expr(e, fn):
        if isinstance(e, dict):
            fn(e)
            for v in e.values():
                walk_expr(v, fn)
        elif isinstance(e, list):
            for v in e:
                walk_expr(v, fn)
    for p in prog['procs']:
        recparams = {q['n']: q.get('rec') for q in p['params'] if q.get('t') == 'R'}
        names = {q['n'] for q in p['params']}
        acc = {}
        forwarded = [False]

        def visit(e, recparams=recparams, names=names, acc=acc, forwarded=forwarded):
            if e.get('k') == 'lv' and e.get('n') in recparams and e.get('fl'):
                acc.setdefault(e['n'], []).append(e['fl'][0])
            if e.get('k') in ('callsub', 'call'):
                for a in e.get('args', []):
                    if isinstance(a, dict) and a.get('k') in ('lv', 'arr') and a.get('n') in names and not a.get('ix') and not a.get('fl'):
                        forwarded[0] = True
        walk_expr(p['body'], visit)
        for nm, fl in acc.items():
            fields = types.get(recparams[nm], [])
            if len(fl) >= 2 and any(f in fields[1:] for f in fl[:-1]):
                feats.add('record-param-reaccessed')
        if forwarded[0]:
            feats.add('param-forwarded')
            if recparams:
                feats.add('record-param-forwarded')
    return feats


WANTED = ('record-param-reaccessed', 'param-forwarded', 'record-param-forwarded')


def _feat_job(seed):
    try:
        g = gen.Gen(seed, size=10, depth=3)
        prog = g.program(wide=True)
    except Exception:
        return seed, []
    return seed, sorted(features_of(prog))


def directed_seeds(ctx, per_feature):
    """seeds of generated programs that contain each wanted feature (deterministic scan of a seed range)"""
    base = ctx.seed * 100000 + 20000
    found = {f: [] for f in WANTED}
    for lo in range(0, 3000, 300):
        for seed, fs in par.pmap(_feat_job, [base + i for i in range(lo, lo + 300)], chunk=20):
            for f in fs:
                if f in found and len(found[f]) < per_feature:
                    found[f].append(seed)
        if all(len(v) >= per_feature for v in found.values()):
            break
    return found


def collect(ctx, n, size, depth):
    jobs = [(ctx.seed * 100000 + i, size, depth, True) for i in range(n)]
    found = directed_seeds(ctx, ctx.pick(4, 30))
    ctx.coverage['directed_features'] = {f: len(v) for f, v in found.items()}
    jobs += [(s, 10, 3, True) for s in sorted({s for v in found.values() for s in v})]
    res = par.pmap(_job, jobs, chunk=2)
    cases = []
    for r in res:
        if 'genfail' in r:
            raise Machinery('generator failed on seed %d: %s' % (r['seed'], r['genfail']))
        for f in r['fails']:
            d = f['detail']
            trig = '%s@%s' % (d.get('type'), d.get('where')) if f['st'] == 'crash' else '%s:%s' % (f['st'], d.get('code', d.get('msg', ''))[:40])
            ctx.violation('rejected-or-crashed', trig, {'program': r['text'], 'cfg': f['cfg'], 'detail': d, 'seed': r['seed']})
        if r['obs']:
            cases.append({'tid': len(cases), 'seed': r['seed'], 'ast': r['ast'], 'obs': r['obs'], 'text': r['text']})
    return cases


def _run(ctx, work):
    n = ctx.pick(90, 3000)
    cases = collect(ctx, n, ctx.pick(10, 18), ctx.pick(3, 4))
    verdicts = validate(work, cases)
    stats = {}
    for c, v in zip(cases, verdicts):
        for oi, vd in enumerate(v['verd']):
            stats[vd] = stats.get(vd, 0) + 1
            if vd in ('ok', 'oom', 'budget', 'impl-budget'):
                continue
            o = c['obs'][oi]
            pos = v['pos'][oi]
            ev = o['events'][pos - 1] if 0 < pos <= len(o['events']) else None
            ln = (ev or {}).get('ln') or o['outcome'].get('ln') or v['status'].get('ln') or 0
            if vd in ('outcome', 'missing-error', 'error-class', 'error-line', 'extra-event', 'host-exception'):
                ln = v['status'].get('ln') or o['outcome'].get('ln') or ln
            trig = stmt_at(c['ast'], ln) if ln else 'nolines'
            if vd == 'host-exception':
                trig = '%s@%s' % (o['outcome'].get('type'), o['outcome'].get('where'))
            ctx.violation(vd, trig, {'program': c['text'], 'cfg': o['cfg'], 'seed': c['seed'], 'verdict': vd, 'pos': pos,
                                     'observed_event': ev, 'observed_outcome': o['outcome'], 'spec_status': v['status'],
                                     'line': ln})
    demo = binding_demo(work, cases, verdicts)
    if demo['rejected'] != demo['corrupted']:
        raise Machinery('binding demonstration failed: %r' % demo)
    ctx.coverage['binding_demo'] = demo
    ctx.coverage.update({
        'states': sum(v['steps'] for v in verdicts) + len(verdicts), 'transitions': sum(v['steps'] for v in verdicts),
        'traces_validated_against_impl': sum(len(c['obs']) for c in cases),
        'programs': len(cases), 'verdicts': stats,
        'samples': [{'seed': cases[0]['seed'], 'program': cases[0]['text']}] if cases else [],
    })


def binding_demo(work, cases, verdicts):
    """corrupt one recorded value / drop one recorded event of traces that passed: must be rejected"""
    import copy
    demo = []
    for c, v in zip(cases, verdicts):
        if len(demo) >= 24:
            break
        if any(x != 'ok' for x in v['verd']):
            continue
        o = c['obs'][0]
        vals = [(i, j) for i, e in enumerate(o['events']) if e['k'] == 'print'
                for j, it in enumerate(e['items']) if it['k'] == 'val' and it['v'][0] in 'IL']
        if not vals:
            continue
        d = {'tid': len(demo), 'ast': c['ast'], 'obs': [copy.deepcopy(o)]}
        i, j = vals[len(vals) // 2]
        d['obs'][0]['events'][i]['items'][j]['v'][1] += 1
        demo.append(d)
        if len(o['events']) >= 2:
            d2 = {'tid': len(demo), 'ast': c['ast'], 'obs': [copy.deepcopy(o)]}
            del d2['obs'][0]['events'][len(o['events']) // 2]
            demo.append(d2)
    vs = validate(work, demo, name='demo.json') if demo else []
    return {'corrupted': len(demo), 'rejected': sum(1 for x in vs if x['verd'][0] not in ('ok', 'oom', 'budget'))}


def replay(ctx, case):
    from lib import rec
    print(case.get('program'))
    print(json.dumps({k: v for k, v in case.items() if k != 'program'}, indent=1)[:3000])
    ctx.coverage.update({'evaluations': 1, 'distinct_nontrivial': 2, 'samples': [case.get('seed')]})
