#!/bin/sh
# Builds what the checks need from files on disk only (offline).
set -e
cd "$(dirname "$0")"
mkdir -p native/build
gcc -O2 -shared -fPIC -o native/build/mmapcache.so native/mmapcache.c || echo "mmapcache shim not built (optional)"
cd spec
for f in *.tla; do
  tla-sany "$f" > /tmp/qbv-sany.$$ 2>&1 || { cat /tmp/qbv-sany.$$; rm -f /tmp/qbv-sany.$$; echo "SANY failed on $f"; exit 1; }
done
rm -f /tmp/qbv-sany.$$
cd ..
/venv/bin/python -m compileall -q lib checks >/dev/null
echo setup ok
