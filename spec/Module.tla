-------------------------------- MODULE Module --------------------------------
(***************************************************************************)
(* The binary module format of QVM as a decoding automaton (property C09), *)
(* and the validation of one module against it.                            *)
(*                                                                         *)
(* Container: sections <<id (1 byte), length (u32), payload>>;             *)
(*   1 literals: (u16 length, bytes)*                                      *)
(*   2 data:     u16 parts, per part u16 items, per item i16 length        *)
(*               (-1 = empty item) + bytes                                  *)
(*   3 globals:  u32 number of global cells                                *)
(*   4 code:     instructions: opcode byte + operands, widths from the     *)
(*               instruction table (a constant taken from qvm/instrs.py:   *)
(*               the NUMBERING is a parameter, the SHAPE is what the       *)
(*               assembler, the loader, the CPU decoder, the disassembler  *)
(*               and the listing have to agree on)                          *)
(*   5 debug info (opaque here)                                             *)
(* The automaton reads the recorded bytes of a case one item at a time     *)
(* (Step); after each item the corresponding entries of the recorded       *)
(* streams must coincide with what was decoded:                            *)
(*   em  what the compiler emitted (QvmCode)      ld  what QModule.parse got *)
(*   cpu what the CPU decoder sees                ds  what disassemble() shows *)
(*   ls  the .code part of the assembly listing (mnemonics, label places)   *)
(* At the end the structural invariants of the decoded code are evaluated.  *)
(***************************************************************************)
EXTENDS Integers, Sequences, FiniteSets, TLC, Json, IOUtils
Cases == JsonDeserialize(IOEnv.CASES)
Table == JsonDeserialize(IOEnv.TABLE)      \* sequence of [op, code, w: sequence of operand sizes, k: sequence of kinds]

VARIABLES cid, pos, phase, sec, secEnd, cnt, cnt2, nlit, npart, nitem, code, verdict
vars == <<cid, pos, phase, sec, secEnd, cnt, cnt2, nlit, npart, nitem, code, verdict>>
C == Cases[cid]
B == C.bytes

U8(i) == B[i]
U16(i) == B[i] * 256 + B[i + 1]
I16(i) == IF B[i] >= 128 THEN U16(i) - 65536 ELSE U16(i)
\* lengths and addresses are far below 2^31 in any module we can feed to TLC
U32(i) == ((B[i] * 256 + B[i + 1]) * 256 + B[i + 2]) * 256 + B[i + 3]
Slice(i, n) == SubSeq(B, i, i + n - 1)

Entry(opc) == LET s == {k \in 1..Len(Table) : Table[k].code = opc} IN
              IF s = {} THEN [op |-> "?", code |-> opc, w |-> <<>>, k |-> <<>>] ELSE Table[CHOOSE k \in s : TRUE]
RECURSIVE Sum(_)
Sum(s) == IF s = <<>> THEN 0 ELSE Head(s) + Sum(Tail(s))

Init == /\ cid \in 1..Len(Cases) /\ pos = 1 /\ phase = "section" /\ sec = 0 /\ secEnd = 0
        /\ cnt = 0 /\ cnt2 = 0 /\ nlit = 0 /\ npart = 0 /\ nitem = 0 /\ code = <<>> /\ verdict = "run"

Stop(v) == verdict' = v /\ UNCHANGED <<cid, pos, phase, sec, secEnd, cnt, cnt2, nlit, npart, nitem, code>>

\* ---- structural invariants of the decoded code (evaluated at the end) -----------------
Starts == {code[i].a : i \in 1..Len(code)}
ArgNum(ins, j) ==      \* numeric value of operand j (sizes 1, 2, 4; unsigned)
    LET off == Sum(SubSeq(ins.w, 1, j - 1)) n == ins.w[j] r == ins.raw IN
    IF n = 1 THEN r[off + 1] ELSE IF n = 2 THEN r[off + 1] * 256 + r[off + 2]
    ELSE ((r[off + 1] * 256 + r[off + 2]) * 256 + r[off + 3]) * 256 + r[off + 4]
\* the frame instruction governing instruction i: the last `frame` at or before it
FrameOf(i) == LET fs == {j \in 1..i : code[j].op = "frame"} IN
              IF fs = {} THEN 0 ELSE CHOOSE j \in fs : \A m \in fs : m <= j
FrameCells(i) == LET f == FrameOf(i) IN IF f = 0 THEN 0 ELSE ArgNum(code[f], 1) + ArgNum(code[f], 2)
IsLocalOp(op) == \/ op \in {"storel", "pushrefl", "initarrl", "storeidxl"}
                 \/ (Len(op) >= 5 /\ SubSeq(op, 1, 5) = "readl") \/ (Len(op) >= 8 /\ SubSeq(op, 1, 8) = "readidxl")
IsGlobalOp(op) == \/ op \in {"storeg", "pushrefg", "initarrg", "storeidxg"}
                  \/ (Len(op) >= 5 /\ SubSeq(op, 1, 5) = "readg") \/ (Len(op) >= 8 /\ SubSeq(op, 1, 8) = "readidxg")
IsIdx(op) == (Len(op) >= 8 /\ SubSeq(op, 1, 7) = "readidx") \/ op \in {"storeidxl", "storeidxg"}
VarIndex(ins) == ArgNum(ins, 1) + (IF IsIdx(ins.op) THEN ArgNum(ins, 2) ELSE 0)

\* ---- storage needed by the declarations the listing shows (.types, .globals, .routines) -------------
\* C.decl = [types: seq of [n, fields: seq of type names],
\*           globals: seq of declarations, routines: seq of [n, p (number of parameters), v (declared locals size),
\*           vars: seq of declarations]];  a declaration is [t (type name), dims (seq of <<lo, hi>>), dyn (array without bounds)]
Builtin == {"integer", "long", "single", "double", "string"}
RECURSIVE TypeCells(_, _)
TypeCells(t, fuel) ==
    IF t \in Builtin \/ fuel = 0 THEN 1
    ELSE LET ks == {k \in 1..Len(C.decl.types) : C.decl.types[k].n = t} IN
         IF ks = {} THEN 1
         ELSE LET ty == C.decl.types[CHOOSE k \in ks : TRUE]
                  RECURSIVE FieldSum(_)
                  FieldSum(i) == IF i > Len(ty.fields) THEN 0 ELSE TypeCells(ty.fields[i], fuel - 1) + FieldSum(i + 1)
              IN FieldSum(1)
RECURSIVE Extent(_, _)
Extent(dims, i) == IF i > Len(dims) THEN 1 ELSE (dims[i][2] - dims[i][1] + 1) * Extent(dims, i + 1)
DeclCells(d) == IF d.dyn THEN 1                                  \* a reference to storage allocated at run time
                ELSE IF d.dims = <<>> THEN TypeCells(d.t, 6)
                ELSE 3 + 2 * Len(d.dims) + Extent(d.dims, 1) * TypeCells(d.t, 6)
RECURSIVE SumCells(_, _)
SumCells(ds, i) == IF i > Len(ds) THEN 0 ELSE DeclCells(ds[i]) + SumCells(ds, i + 1)
\* every parameter is one cell (a reference); the locals are the declarations after the parameters
FrameDeclOK(r) == r.p >= 0 /\ r.p <= Len(r.vars) /\ r.v = SumCells(r.vars, r.p + 1)

Structural ==
    IF \E i \in 1..Len(code) : code[i].op \in {"jmp", "jz", "call"} /\ ArgNum(code[i], 1) \notin Starts THEN "jump-target"
    ELSE IF \E i \in 1..Len(code) : code[i].op = "errhand" /\ ArgNum(code[i], 1) \notin (Starts \cup {0, 1}) THEN "errhand-target"
    ELSE IF \E i \in 1..Len(code) : IsLocalOp(code[i].op) /\ VarIndex(code[i]) >= FrameCells(i) THEN "local-outside-frame"
    ELSE IF \E i \in 1..Len(code) : IsGlobalOp(code[i].op) /\ VarIndex(code[i]) >= C.ld.nglob THEN "global-outside-area"
    \* every routine's frame declaration equals the storage its parameters and locals need, and so does the global area
    ELSE IF \E k \in 1..Len(C.decl.routines) : ~FrameDeclOK(C.decl.routines[k]) THEN "frame-declaration"
    ELSE IF C.ld.nglob # SumCells(C.decl.globals, 1) THEN "global-size"
    ELSE IF \E i \in 1..Len(code) : code[i].op = "push$" /\ ArgNum(code[i], 1) >= nlit THEN "literal-index"
    \* the listing: same mnemonics in the same order; a label operand is the address of the
    \* instruction that follows the label in the listing
    ELSE IF Len(C.ls) # Len(code) THEN "listing-length"
    ELSE IF \E i \in 1..Len(code) : C.ls[i].op # code[i].op THEN "listing-mnemonic"
    ELSE IF \E i \in 1..Len(code) : C.ls[i].target > 0 /\ ArgNum(code[i], 1) # code[C.ls[i].target].a THEN "listing-label"
    ELSE IF Len(C.em.ins) # Len(code) THEN "emitted-length"
    ELSE IF \E i \in 1..Len(code) : C.em.ins[i] # code[i].op THEN "emitted-mnemonic"
    ELSE "ok"

\* ---- the automaton -------------------------------------------------------------------
Step ==
  /\ verdict = "run"
  /\ CASE phase = "section" ->
            IF pos > Len(B) THEN
                 (IF Len(C.cpu) # Len(code) THEN Stop("cpu-length")
                  ELSE IF Len(C.ds) # Len(code) THEN Stop("disasm-length")
                  ELSE IF nlit # Len(C.ld.lits) \/ nlit # Len(C.em.lits) THEN Stop("literal-count")
                  ELSE Stop(Structural))
            ELSE IF pos + 4 > Len(B) THEN Stop("truncated-section-header")
            ELSE LET id == U8(pos) n == U32(pos + 1) IN
                 IF pos + 4 + n > Len(B) THEN Stop("section-length")
                 ELSE /\ sec' = id /\ secEnd' = pos + 4 + n /\ pos' = pos + 5
                      /\ phase' = (CASE id = 1 -> "lit" [] id = 2 -> "data" [] id = 3 -> "glob" [] id = 4 -> "code" [] id = 5 -> "skip" [] OTHER -> "bad")
                      /\ UNCHANGED <<cid, cnt, cnt2, nlit, npart, nitem, code, verdict>>
       [] phase = "bad" -> Stop("unknown-section")
       [] phase = "skip" -> /\ pos' = secEnd + 1 /\ phase' = "section"
                            /\ UNCHANGED <<cid, sec, secEnd, cnt, cnt2, nlit, npart, nitem, code, verdict>>
       [] phase = "lit" ->
            IF pos > secEnd THEN phase' = "section" /\ UNCHANGED <<cid, pos, sec, secEnd, cnt, cnt2, nlit, npart, nitem, code, verdict>>
            ELSE LET n == U16(pos) txt == Slice(pos + 2, n) IN
                 IF pos + 1 + n > secEnd THEN Stop("literal-length")
                 ELSE IF nlit + 1 > Len(C.ld.lits) \/ C.ld.lits[nlit + 1] # txt THEN Stop("literal-loaded")
                 ELSE IF nlit + 1 > Len(C.em.lits) \/ C.em.lits[nlit + 1] # txt THEN Stop("literal-emitted")
                 ELSE /\ nlit' = nlit + 1 /\ pos' = pos + 2 + n
                      /\ UNCHANGED <<cid, phase, sec, secEnd, cnt, cnt2, npart, nitem, code, verdict>>
       [] phase = "data" ->
            \* cnt = parts still to read (-1 = header not read), cnt2 = items still to read in the part
            IF cnt = 0 /\ cnt2 = 0 /\ npart > 0 /\ pos > secEnd THEN
                 (IF npart # Len(C.ld.data) \/ npart # Len(C.em.data) THEN Stop("data-part-count")
                  ELSE phase' = "section" /\ UNCHANGED <<cid, pos, sec, secEnd, cnt, cnt2, nlit, npart, nitem, code, verdict>>)
            ELSE IF npart = 0 /\ cnt = 0 /\ cnt2 = 0 /\ nitem = 0 THEN
                 \* number of parts
                 LET n == U16(pos) IN
                 IF n = 0 THEN (IF Len(C.ld.data) # 0 \/ Len(C.em.data) # 0 THEN Stop("data-part-count")
                                ELSE /\ pos' = pos + 2 /\ phase' = "section"
                                     /\ UNCHANGED <<cid, sec, secEnd, cnt, cnt2, nlit, npart, nitem, code, verdict>>)
                 ELSE /\ cnt' = n /\ pos' = pos + 2 /\ nitem' = -1
                      /\ UNCHANGED <<cid, phase, sec, secEnd, cnt2, nlit, npart, code, verdict>>
            ELSE IF cnt2 = 0 /\ cnt > 0 THEN
                 \* a new part: number of items
                 LET n == U16(pos) IN
                 /\ npart' = npart + 1 /\ cnt' = cnt - 1 /\ cnt2' = n /\ nitem' = 0 /\ pos' = pos + 2
                 /\ (IF npart + 1 > Len(C.ld.data) \/ Len(C.ld.data[npart + 1]) # n THEN verdict' = "data-item-count-loaded"
                     ELSE IF npart + 1 > Len(C.em.data) \/ Len(C.em.data[npart + 1]) # n THEN verdict' = "data-item-count-emitted"
                     ELSE UNCHANGED verdict)
                 /\ UNCHANGED <<cid, phase, sec, secEnd, nlit, code>>
            ELSE IF cnt2 > 0 THEN
                 LET n == I16(pos)
                     item == IF n < 0 THEN <<-1>> ELSE Slice(pos + 2, n)
                     k == nitem + 1
                 IN IF C.ld.data[npart][k] # item THEN Stop("data-item-loaded")
                    ELSE IF C.em.data[npart][k] # item THEN Stop("data-item-emitted")
                    ELSE /\ nitem' = k /\ cnt2' = cnt2 - 1 /\ pos' = pos + 2 + (IF n < 0 THEN 0 ELSE n)
                         /\ UNCHANGED <<cid, phase, sec, secEnd, cnt, nlit, npart, code, verdict>>
            ELSE Stop("data-section-shape")
       [] phase = "glob" ->
            IF secEnd - pos + 1 # 4 THEN Stop("globals-length")
            ELSE IF U32(pos) # C.ld.nglob THEN Stop("globals-loaded")
            ELSE IF U32(pos) # C.em.nglob THEN Stop("globals-emitted")
            ELSE /\ pos' = pos + 4 /\ phase' = "section" /\ cnt' = 0 /\ cnt2' = 0 /\ nitem' = 0
                 /\ UNCHANGED <<cid, sec, secEnd, nlit, npart, code, verdict>>
       [] phase = "code" ->
            IF pos > secEnd THEN phase' = "section" /\ UNCHANGED <<cid, pos, sec, secEnd, cnt, cnt2, nlit, npart, nitem, code, verdict>>
            ELSE LET e == Entry(U8(pos))
                     n == Sum(e.w)
                     a == pos - (secEnd - C.codelen) - 1          \* address inside the code section
                     raw == Slice(pos + 1, n)
                     k == Len(code) + 1
                     ins == [a |-> a, op |-> e.op, raw |-> raw, w |-> e.w]
                 IN IF e.op = "?" THEN Stop("undefined-opcode")
                    ELSE IF pos + n > secEnd THEN Stop("truncated-instruction")
                    ELSE IF k > Len(C.cpu) THEN Stop("cpu-length")
                    ELSE IF C.cpu[k].a # a THEN Stop("cpu-address")
                    ELSE IF C.cpu[k].op # e.op THEN Stop("cpu-mnemonic")
                    ELSE IF C.cpu[k].raw # raw THEN Stop("cpu-operand")
                    ELSE IF k > Len(C.ds) THEN Stop("disasm-length")
                    ELSE IF C.ds[k].a # a THEN Stop("disasm-address")
                    ELSE IF C.ds[k].op # e.op THEN Stop("disasm-mnemonic")
                    ELSE IF C.ds[k].raw # raw THEN Stop("disasm-operand")
                    ELSE /\ code' = Append(code, ins) /\ pos' = pos + 1 + n
                         /\ UNCHANGED <<cid, phase, sec, secEnd, cnt, cnt2, nlit, npart, nitem, verdict>>

Spec == Init /\ [][Step]_vars
Report == verdict # "run" => PrintT(ToJson([tid |-> C.tid, verdict |-> verdict, l |-> Len(code), pos |-> pos]))
=============================================================================
