"""Driving qvm/dbg.py: a free run recorded tick by tick, and debugger sessions
(Cmd.onecmd) recorded after every command, projected on the same abstract state."""
import io
import zlib
import contextlib

from lib import qb
from lib.qb import Recorder, ScriptExhausted, where_of

from qvm.machine import QvmMachine
from qvm.cpu import HaltReason


def _cell(c, depth=0):
    if c is None:
        return None
    t = getattr(c, 'type', None)
    if t is None:
        return type(c).__name__
    tn = t.name
    v = c.value
    if tn == 'REFERENCE':
        seg = getattr(v, 'segment', None)
        return ('R', type(seg).__name__, getattr(v, 'index', None))
    if isinstance(v, (int, float, str)):
        return (tn, repr(v))
    cells = getattr(v, 'cells', None)
    if cells is not None and depth < 2:
        return (tn, tuple(_cell(x, depth + 1) for x in cells[:64]))
    return (tn, type(v).__name__)


def _seg(seg):
    return tuple(_cell(c) for c in seg.cells)


def digest(cpu, rec=None):
    frames = []
    f = cpu.cur_frame
    while f is not None:
        frames.append((f.ret_addr, _seg(f)))
        f = f.prev_frame
    st = (cpu.pc, tuple(_cell(c) for c in cpu.stack), tuple(frames), _seg(cpu.globals_segment),
          bool(cpu.halted), tuple(repr(e) for e in rec.events) if rec is not None else ())
    return zlib.crc32(repr(st).encode()) & 0x3fffffff


def depth_of(cpu):
    nf = 0
    f = cpu.cur_frame
    while f is not None:
        nf += 1
        f = f.prev_frame
    g = getattr(cpu.cur_frame, 'gosubs', 0) if cpu.cur_frame is not None else 0
    return nf * 1000 + g


class StmtMap:
    """Innermost non-empty statement record containing an address (the map C11 validates)."""

    def __init__(self, module, cpu):
        self.recs = [r for r in module.debug_info.stmts]
        self.cache = {}
        ins, ops, _ = cpu.get_instruction_at(0)
        self.entry = ops[0] if ins.op == 'call' else None

    def at(self, pc):
        if pc == 0 and self.entry is not None:
            pc = self.entry
        if pc in self.cache:
            return self.cache[pc]
        best = 0
        bl = None
        for k, r in enumerate(self.recs):
            if r.start_offset <= pc < r.end_offset:
                ln = r.end_offset - r.start_offset
                if bl is None or ln < bl:
                    best, bl = k + 1, ln
        self.cache[pc] = best
        return best

    def line_addr(self, line):
        """Address of the first executable statement at or after a source line (0: none)."""
        cands = [r for r in self.recs if r.end_offset > r.start_offset and r.source_start_line >= line]
        if not cands:
            return 0
        r = min(cands, key=lambda r: (r.source_start_offset, r.start_offset))
        return r.start_offset

    def lines(self):
        return sorted({r.source_start_line for r in self.recs})


def free_run(module, script, budget=600):
    rec = Recorder(script)
    T = []
    with contextlib.redirect_stdout(io.StringIO()):
        m = QvmMachine(module, impl=rec)
        cpu = m.cpu
        sm = StmtMap(module, cpu)
        n = 0
        how = None
        try:
            while True:
                if cpu.halted:
                    how = 'halt'
                    break
                if cpu.pc >= len(module.code):
                    how = 'eoc'
                    break
                if n >= budget:
                    return None
                ins, ops, size = cpu.get_instruction_at(cpu.pc)
                T.append({'pc': cpu.pc, 'depth': depth_of(cpu), 'st': sm.at(cpu.pc),
                          'call': 1 if ins.op == 'call' else 0, 'dev': len(rec.events), 'dg': digest(cpu, rec)})
                cpu.tick()
                n += 1
        except ScriptExhausted:
            return None
        except Exception:
            return None
        T.append({'pc': cpu.pc, 'depth': depth_of(cpu), 'st': 0, 'call': 0, 'dev': len(rec.events),
                  'dg': digest(cpu, rec)})
    reason = cpu.halt_reason.name
    return {'T': T, 'events': [repr(e) for e in rec.events], 'reason': reason, 'sm': sm, 'how': how}


class Session:
    def __init__(self, module, script, budget=5000):
        from qvm.dbg import Cmd
        self.rec = Recorder(script)
        self.sink = io.StringIO()
        self.n = 0
        self.budget = budget
        self.exc = ''
        with contextlib.redirect_stdout(self.sink):
            self.m = QvmMachine(module, impl=self.rec)
            cpu = self.m.cpu
            orig = cpu.tick

            def tick():
                self.n += 1
                if self.n > self.budget:
                    raise RuntimeError('tick budget')
                return orig()
            cpu.tick = tick
            try:
                self.cmd = Cmd(self.m, module)
            except Exception as e:
                self.cmd = None
                self.exc = '%s@%s' % (type(e).__name__, where_of(e))
        self.start = self.n + 1

    def do(self, line):
        cpu = self.m.cpu
        out = io.StringIO()
        exc = ''
        with contextlib.redirect_stdout(out):
            try:
                self.cmd.onecmd(line)
            except ScriptExhausted:
                exc = 'script'
            except Exception as e:
                exc = '%s@%s' % (type(e).__name__, where_of(e))
        text = out.getvalue()
        return {'n': self.n + 1, 'pc': cpu.pc, 'dg': digest(cpu, self.rec), 'dv': len(self.rec.events),
                'hit': 1 if 'Hit breakpoint' in text else 0, 'exc': exc, 'text': text,
                'halted': bool(cpu.halted), 'reason': cpu.halt_reason.name}


def run_session(module, script, cmds):
    """cmds: list of [cmd, line].  Returns {'start':..., 'steps': [...]}."""
    s = Session(module, script)
    if s.cmd is None:
        return {'start': s.start, 'steps': [{'cmd': 'init', 'l': 0, 'n': s.n + 1, 'dg': 0, 'dv': 0, 'hit': 0,
                                              'msg': '', 'at': 0, 'exc': s.exc}], 'events': []}
    steps = []
    for cmd, l in cmds:
        line = cmd if cmd not in ('break', 'delbr') else '%s %d' % (cmd, l)
        r = s.do(line)
        msg = ''
        at = 0
        t = r['text']
        if cmd == 'break':
            if 'Cannot set breakpoint' in t:
                msg = 'nosuch'
            elif 'Setting a breakpoint at' in t:
                msg = 'set'
                i = t.find('0x')
                if i >= 0:
                    try:
                        at = int(t[i + 2:i + 10], 16)
                    except ValueError:
                        at = -1
        elif cmd == 'delbr':
            if 'Deleting breakpoint' in t:
                msg = 'deleted'
            elif 'No such breakpoint' in t:
                msg = 'nobp'
            elif 'Error' in t:
                msg = 'nosuch'
        steps.append({'cmd': cmd, 'l': l, 'n': r['n'], 'dg': r['dg'], 'dv': r['dv'], 'hit': r['hit'],
                      'msg': msg, 'at': at, 'exc': r['exc']})
        if r['exc']:
            break
    return {'start': s.start, 'steps': steps, 'events': [repr(e) for e in s.rec.events]}
