"""C10  ON ERROR, RESUME and RESUME NEXT follow statement-level semantics.

QB.tla carries the error-handler state (mode, handler, active, ERR kind, resume point) and the
statements ON ERROR GOTO / RESUME NEXT / GOTO 0, RESUME, RESUME NEXT.  MC_Handlers.tla
enumerates scenarios: a module body of failing-capable statements (division, subscript, ASC,
overflow, MID$, an error deep inside an expression with pending operands, an error inside a
FUNCTION, a statement whose FUNCTION already printed before it fails), which of them fail, and
the handler regime (RESUME NEXT, RESUME after repairing the cause, ON ERROR RESUME NEXT,
ON ERROR GOTO 0 inside the handler, handler that ends, error inside the handler, disarmed,
none).  After the body the program continues with GOSUB/RETURN, a SUB call, a FOR loop and the
fall-off end.  Each program is compiled with -g at -O0/-O1/-O2 and run; Trace_QB.tla validates
events (ERR values included) and outcome; the tick recorder checks that the operand stack is
back at the statement-boundary depth after resuming (Trace_QVMSafe.tla).
"""
import json
import os
import random

from lib import tlc, par, gen
from lib.common import Machinery
from checks import c01, c03

LEVEL = 'model_checking'
MC_CFG = '''SPECIFICATION Spec
CONSTANT K = %d
CONSTANT NT = %d
INVARIANT Report
CHECK_DEADLOCK FALSE
'''


def S(s):
    return [ord(c) for c in s]


def num(v, t='I'):
    return {'k': 'num', 't': t, 'v': v}


def var(n, t='I'):
    return {'k': 'lv', 'n': n, 'ix': [], 'fl': [], 't': t}


def strl(s):
    return {'k': 'str', 'b': S(s)}


def pr(*es):
    items = []
    for i, e in enumerate(es):
        if i:
            items.append({'k': 'sep', 's': ';'})
        items.append({'k': 'e', 'e': e})
    return {'k': 'print', 'items': items}


def let(l, e):
    return {'k': 'let', 'lv': l, 'e': e}


def binop(o, l, r):
    return {'k': 'bin', 'o': o, 'l': l, 'r': r}


NT = 11


def template(t, j, fails):
    """statements of template t at position j: [set control variable, the failing-capable statement];
    `fix` = statements that repair the cause (for a handler that ends in RESUME)"""
    c = lambda n: 'c%d%s' % (j, n)
    if t == 1:
        ctl = let(var(c('d%')), num(0 if fails else 2))
        st = let(var('r%'), binop('idiv', num(10), var(c('d%'))))
        fix = [let(var(c('d%')), num(5))]
    elif t == 2:
        ctl = let(var(c('i%')), num(9 if fails else 1))
        st = let({'k': 'lv', 'n': 'arr%', 'ix': [var(c('i%'))], 'fl': [], 't': 'I'}, num(7))
        fix = [let(var(c('i%')), num(2))]
    elif t == 3:
        ctl = let(var(c('s$'), 'T'), strl('' if fails else 'A'))
        st = let(var('r%'), {'k': 'fn', 'n': 'asc', 't': 'I', 'args': [var(c('s$'), 'T')]})
        fix = [let(var(c('s$'), 'T'), strl('B'))]
    elif t == 4:
        ctl = let(var(c('b%')), num(32767 if fails else 5))
        st = let(var('r%'), binop('add', var(c('b%')), num(1)))
        fix = [let(var(c('b%')), num(1))]
    elif t == 5:
        ctl = let(var(c('m%')), num(0 if fails else 2))
        st = let(var('t$', 'T'), {'k': 'fn', 'n': 'mid$', 't': 'T', 'args': [strl('abc'), var(c('m%'))]})
        fix = [let(var(c('m%')), num(1))]
    elif t == 6:
        # the error happens with operands pending on the VM's stack
        ctl = let(var(c('e%')), num(0 if fails else 5))
        st = pr(binop('add', num(1), {'k': 'par', 'a': binop('mul', num(2), {'k': 'par', 'a': binop('idiv', num(10), var(c('e%')))})}),
                strl('x'), binop('add', var('r%'), num(0)))
        fix = [let(var(c('e%')), num(2))]
    elif t == 7:
        # error inside a FUNCTION called by a module-level statement
        ctl = let(var(c('f%')), num(0 if fails else 2))
        st = let(var('r%'), {'k': 'call', 'n': 'dv%', 'pi': 1, 't': 'I', 'args': [{'k': 'par', 'a': var(c('f%'))}]})
        fix = [let(var(c('f%')), num(1))]
    elif t == 9:
        # the opening line of an IF block fails; the first statement of its body is itself a block
        ctl = let(var(c('h%')), num(0 if fails else 2))
        inner = {'k': 'if', 'arms': [{'c': binop('eq', var(c('h%')), num(7)), 'body': [pr(strl('inner%d' % j))]}], 'els': [], 'hasels': False}
        st = {'k': 'if', 'arms': [{'c': binop('eq', {'k': 'par', 'a': binop('idiv', num(10), var(c('h%')))}, num(5)),
                                   'body': [inner, pr(strl('body%d' % j))]}], 'els': [], 'hasels': False}
        fix = [let(var(c('h%')), num(5))]
    elif t == 10:
        # the WHILE line fails; the body repairs the cause, the loop then ends
        ctl = let(var(c('w%')), num(0 if fails else 2))
        st = {'k': 'while', 'c': binop('gt', {'k': 'par', 'a': binop('idiv', num(10), var(c('w%')))}, num(20)),
              'body': [let(var(c('w%')), num(1)), pr(strl('w%d' % j))]}
        fix = [let(var(c('w%')), num(5))]
    elif t == 11:
        # an ELSEIF line fails; its body starts with a FOR block
        ctl = let(var(c('e%')), num(0 if fails else 2))
        loop = {'k': 'for', 'v': var(c('q%')), 'from': num(1), 'to': num(1), 'step': num(1), 'hasstep': False, 'nextvar': False,
                'body': [pr(strl('in-for%d' % j))]}
        st = {'k': 'if', 'arms': [{'c': binop('eq', var(c('e%')), num(99)), 'body': [pr(strl('a%d' % j))]},
                                  {'c': binop('eq', {'k': 'par', 'a': binop('idiv', num(10), var(c('e%')))}, num(5)), 'body': [loop, pr(strl('b%d' % j))]}],
              'els': [], 'hasels': False}
        fix = [let(var(c('e%')), num(5))]
    else:
        # the statement's FUNCTION has already printed when the statement fails
        ctl = let(var(c('g%')), num(0 if fails else 4))
        st = pr({'k': 'call', 'n': 'say%', 'pi': 2, 't': 'I', 'args': [num(j)]}, binop('idiv', num(8), var(c('g%'))))
        fix = [let(var(c('g%')), num(4))]
    return ctl, st, fix


def build(sc):
    body, form = sc['body'], sc['form']
    main = [{'k': 'dim', 'n': 'arr%', 'dims': [{'lo': num(0), 'hi': num(3), 'haslo': False}], 'rec': None, 't': 'I'},
            pr(strl('E0'), {'k': 'fn', 'n': 'err', 't': 'I', 'args': []})]      # ERR before any error is 0
    fixes = []
    inproc = False
    if form == 'disarmed':
        main += [{'k': 'onerror', 'mode': 'goto', 'label': 'hnd'}, {'k': 'onerror', 'mode': 'off'}]
    elif form == 'mode-next':
        main.append({'k': 'onerror', 'mode': 'next'})
    elif form != 'no-handler':
        main.append({'k': 'onerror', 'mode': 'goto', 'label': 'hnd'})
    for j, (t, f) in enumerate(body, 1):
        ctl, st, fix = template(t, j, f)
        main += [ctl, st, pr(strl('s%d' % j), var('r%'))]
        fixes += fix
        if t == 7 and f:
            inproc = True
    # later statements, calls and returns must behave normally
    main += [pr(strl('end-of-body')), {'k': 'gosub', 'label': 'gs'}, {'k': 'callsub', 'n': 'after', 'pi': 3, 'args': [num(3)], 'form': 'bare'},
             {'k': 'for', 'v': var('q%'), 'from': num(1), 'to': num(2), 'step': num(1), 'hasstep': False, 'nextvar': False, 'body': [pr(var('q%'))]},
             {'k': 'goto', 'label': 'fin'},
             {'k': 'label', 'n': 'gs'}, pr(strl('gosub')), {'k': 'return'}]
    # the handler
    h = [{'k': 'label', 'n': 'hnd'}, pr(strl('H'), {'k': 'fn', 'n': 'err', 't': 'I', 'args': []})]
    if form == 'resume-next':
        h.append({'k': 'resume', 'next': True})
    elif form == 'resume':
        h += fixes + [{'k': 'resume', 'next': False}]
    elif form == 'goto-off':
        h.append({'k': 'onerror', 'mode': 'off'})
    elif form == 'handler-ends':
        h.append({'k': 'end'})
    elif form == 'error-in-handler':
        h += [let(var('z%'), num(0)), let(var('r%'), binop('idiv', num(1), var('z%'))), {'k': 'resume', 'next': True}]
    else:
        h.append({'k': 'end'})
    main += h
    main += [{'k': 'label', 'n': 'fin'}, pr(strl('fin'))]
    procs = [
        {'n': 'dv%', 'kind': 'function', 'rt': 'I', 'params': [{'n': 'x%', 't': 'I'}], 'statics': [],
         'body': [pr(strl('in-dv')), let(var('dv%'), binop('idiv', num(6), var('x%')))]},
        {'n': 'say%', 'kind': 'function', 'rt': 'I', 'params': [{'n': 'x%', 't': 'I'}], 'statics': [],
         'body': [pr(strl('say'), var('x%')), let(var('say%'), var('x%'))]},
        {'n': 'after', 'kind': 'sub', 'rt': '', 'params': [{'n': 'x%', 't': 'I'}], 'statics': [],
         'body': [pr(strl('sub'), var('x%'))]},
    ]
    prog = {'types': [], 'consts': [], 'shared': [], 'main': gen.flatten(main), 'procs': procs}
    return prog, inproc


def errcodes():
    from lib import qb  # noqa
    from qvm.trap import TrapCode
    m = {'DIV0': 'DIVISION_BY_ZERO', 'OVF': 'INVALID_CELL_VALUE', 'SUBSCRIPT': 'INDEX_OUT_OF_RANGE', 'RANK': 'INVALID_DIMENSIONS',
         'ILLEGAL': 'INVALID_OPERAND_VALUE'}
    return {k: TrapCode[v].value for k, v in m.items()}


def _job(job):
    from lib import rec, qb, tick
    sc, levels = job
    prog, inproc = build(sc)
    # a RESUME after an error inside a procedure is outside the property: such scenarios end in the handler
    if inproc and sc['form'] in ('resume-next', 'resume'):
        return None
    prog['errcodes'] = errcodes()
    text = gen.Unparser(prog).text()
    ast = gen.strip_for_tlc(prog)
    obs, fails, depth = [], [], []
    for O in levels:
        r = rec.run_recorded(text, O, True, budget=20000)
        if r['st'] != 'ok':
            fails.append({'cfg': [O, True], 'st': r['st'], 'detail': r['detail']})
            continue
        for e in r['events']:
            e.pop('text', None)
        obs.append({'cfg': 'O%dg' % O, 'events': r['events'], 'outcome': r['outcome']})
    # stack discipline at statement boundaries (after resuming, nothing of the failed statement remains)
    c = qb.compile_text(text, levels[0], True)
    ticks = None
    if c['st'] == 'ok':
        mod = qb.load_module(c['bytes'])
        tr = tick.TickRecorder(mod, maxticks=3000)
        qb.run_module(mod, None, 3000, observer=tr)
        ticks = tr.ticks
    return {'sc': sc, 'text': text, 'ast': ast, 'obs': obs, 'fails': fails, 'ticks': ticks, 'level0': levels[0]}


def run(ctx):
    work = tlc.scratch_dir('qbv-c10-')
    try:
        _run(ctx, work)
    finally:
        import shutil
        shutil.rmtree(work, ignore_errors=True)


def _run(ctx, work):
    rng = random.Random(ctx.seed)
    K = ctx.pick(2, 3)
    r = tlc.run_tlc('MC_Handlers', MC_CFG % (K, NT), workers=8, timeout=1700, heap='8g')
    if r.error:
        raise Machinery('MC_Handlers: ' + r.error[:1200])
    scen = [{'body': [(b[0], b[1]) for b in s['body']], 'form': s['form']} for s in r.printed]
    r3 = tlc.run_tlc('MC_Handlers', MC_CFG % (4, NT), workers=1, simulate=ctx.pick(120, 3000), depth=8, seed=ctx.seed, timeout=900)
    if r3.error:
        raise Machinery('MC_Handlers simulate: ' + r3.error[:1200])
    scen += [{'body': [(b[0], b[1]) for b in s['body']], 'form': s['form']} for s in r3.printed if len(s['body']) > K]
    rng.shuffle(scen)
    # scenarios with at least one failure are the interesting ones; keep a few silent ones
    fail_sc = [s for s in scen if any(f for _, f in s['body'])]
    calm = [s for s in scen if not any(f for _, f in s['body'])]
    pick = fail_sc[:ctx.pick(260, 12000)] + calm[:ctx.pick(20, 400)]
    jobs = [(s, (0, 1, 2) if not ctx.quick() else (i % 3,)) for i, s in enumerate(pick)]
    res = [x for x in par.pmap(_job, jobs, chunk=2) if x is not None]
    cases, tcases = [], []
    for rr in res:
        for f in rr['fails']:
            d = f['detail']
            trig = '%s@%s' % (d.get('type'), d.get('where')) if f['st'] == 'crash' else '%s:%s' % (f['st'], str(d.get('msg', ''))[:40])
            ctx.violation('rejected-or-crashed', trig, {'program': rr['text'], 'cfg': f['cfg'], 'detail': d, 'scenario': rr['sc']})
        if rr['obs']:
            cases.append({'tid': len(cases), 'seed': 0, 'ast': rr['ast'], 'obs': rr['obs'], 'text': rr['text'], 'sc': rr['sc']})
        if rr['ticks'] is not None:
            tcases.append({'tid': len(tcases), 'ticks': rr['ticks'], 'text': rr['text'], 'sc': rr['sc'], 'cfg': [rr['level0'], True]})
    verdicts = c01.validate(work, cases, maxsteps=4000)
    stats = {}
    for c, v in zip(cases, verdicts):
        for oi, vd in enumerate(v['verd']):
            stats[vd] = stats.get(vd, 0) + 1
            if vd in ('ok', 'oom', 'budget', 'impl-budget'):
                continue
            o = c['obs'][oi]
            pos = v['pos'][oi]
            ev = o['events'][pos - 1] if 0 < pos <= len(o['events']) else None
            # trigger: handler regime + template of the first failing statement
            firstfail = next((t for t, f in c['sc']['body'] if f), 0)
            ctx.violation(vd, '%s:t%d%s' % (c['sc']['form'], firstfail, ':multi' if sum(1 for _, f in c['sc']['body'] if f) > 1 else ''),
                          {'program': c['text'], 'cfg': o['cfg'], 'scenario': c['sc'], 'verdict': vd, 'pos': pos, 'observed_event': ev,
                           'observed_outcome': o['outcome'], 'spec_status': v['status']})
    tv = c03.validate(work, [{'tid': c['tid'], 'ticks': c['ticks']} for c in tcases], 'c10ticks.json')
    tstats = {}
    for c, v in zip(tcases, tv):
        tstats[v['verdict']] = tstats.get(v['verdict'], 0) + 1
        if v['verdict'] != 'ok':
            t = c['ticks'][v['l'] - 1]
            firstfail = next((tt for tt, f in c['sc']['body'] if f), 0)
            ctx.violation('vm:' + v['verdict'], '%s:t%d' % (c['sc']['form'], firstfail),
                          {'program': c['text'], 'cfg': c['cfg'], 'scenario': c['sc'], 'tick': t, 'index': v['l']})
    ctx.coverage.update({
        'states': r.distinct + sum(v['steps'] for v in verdicts), 'transitions': r.generated + sum(v['steps'] for v in verdicts),
        'traces_validated_against_impl': sum(len(c['obs']) for c in cases) + len(tcases),
        'scenarios_enumerated': len(r.printed), 'scenarios_simulated': len(r3.printed), 'scenarios_run': len(res),
        'source_level_verdicts': stats, 'machine_level_verdicts': tstats, 'exhaustive_len': K,
        'samples': [{'scenario': cases[0]['sc'], 'program': cases[0]['text']}] if cases else [],
    })


def replay(ctx, case):
    print(case.get('program'))
    print(json.dumps({k: v for k, v in case.items() if k != 'program'}, indent=1)[:3000])
    ctx.coverage.update({'evaluations': 1, 'distinct_nontrivial': 2, 'samples': [case.get('scenario')]})
