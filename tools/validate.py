#!/usr/local/bin/python3-vt
import json, jsonschema, glob, sys
ok = True
jsonschema.validate(json.load(open('/verif/MANIFEST.json')), json.load(open('/root/.vp/MANIFEST.schema.json')))
es = json.load(open('/root/.vp/EVIDENCE.schema.json'))
for f in sorted(glob.glob('/verif/evidence/*.json')):
    try:
        jsonschema.validate(json.load(open(f)), es)
    except Exception as e:
        ok = False; print('INVALID', f, str(e)[:300])
print('valid' if ok else 'INVALID')
sys.exit(0 if ok else 1)
