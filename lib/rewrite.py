"""Rendering a program under a surface of Rewrite.tla (property C14).

A program is a list of units (one per statement as written by the generator's unparser, or per
line of a fixed template):
    {'text': canonical text, 'ind': indentation, 'k': 'simple'|'ifline'|'other', 'lab': bool,
     'let': bool, 'call': alt text or None, 'nxt': alt text or None, 'ne': bool, 'data': bool}
render(units, surface, labels) writes it down the way the surface says."""
import re
import zlib

SIMPLE = {'let', 'print', 'callsub', 'goto', 'gosub', 'return', 'dev', 'exit', 'dim', 'onerror', 'resume', 'end'}

STRING_RE = re.compile(r'"[^"]*"?')


def _h(*a):
    return zlib.crc32(repr(a).encode())


def split_strings(line):
    """[(is_string, piece)]"""
    out = []
    pos = 0
    for m in STRING_RE.finditer(line):
        if m.start() > pos:
            out.append((False, line[pos:m.start()]))
        out.append((True, m.group(0)))
        pos = m.end()
    if pos < len(line):
        out.append((False, line[pos:]))
    return out


def outside_strings(line, fn):
    return ''.join(p if s else fn(p) for s, p in split_strings(line))


# ---- units ---------------------------------------------------------------------------------
def units_from_gen(prog):
    """units of a generated program: the unparser is run twice, the second time with every CALL form
    and every NEXT variable flipped; the line structure is the same"""
    import copy
    from lib import gen
    a = copy.deepcopy(prog)
    ua = gen.Unparser(a)
    ta = ua.text().split('\n')
    b = copy.deepcopy(prog)

    def flip(blk):
        for s in blk:
            if s['k'] == 'callsub':
                s['form'] = 'call' if s.get('form', 'bare') == 'bare' else 'bare'
            if s['k'] == 'for':
                s['nextvar'] = not s.get('nextvar')
            for key in ('body', 'els'):
                if isinstance(s.get(key), list):
                    flip(s[key])
            for arm in s.get('arms', []):
                flip(arm['body'])
            for c in s.get('cases', []):
                flip(c['body'])
    flip(b['main'])
    for p in b['procs']:
        flip(p['body'])
    ub = gen.Unparser(b)
    tb = ub.text().split('\n')
    if len(ta) != len(tb):
        raise ValueError('flipped program has another line structure')
    units = []
    labels = []
    for i, line in enumerate(ta):
        if i >= len(ua.lineinfo):
            if line.strip():
                raise ValueError('line without info: %r' % line)
            continue
        kinds = ua.lineinfo[i]['kinds']
        text = line.strip()
        ind = len(line) - len(line.lstrip())
        alt = tb[i].strip()
        kind = kinds[0] if kinds else 'nop'
        k = 'ifline' if kind == 'ifline' else 'simple' if (len(kinds) == 1 and kind in SIMPLE) else 'other'
        lab = kind == 'label'
        if lab:
            labels.append(text.rstrip(':').strip())
        u = {'text': text, 'ind': ind, 'k': k, 'lab': lab, 'let': kind == 'let' and len(kinds) == 1,
             'call': alt if (kind == 'callsub' and alt != text) else None,
             'nxt': alt if (kind == 'next' and alt != text) else None,
             'ne': '<>' in outside_strings(text, lambda p: p) and any('<>' in p for s, p in split_strings(text) if not s),
             'data': False, 'kind': kind}
        u['lbl0'] = bool(kind == 'callsub' and re.match(r'^[A-Za-z][A-Za-z0-9]*$', text))
        u['lbl1'] = bool(kind == 'callsub' and re.match(r'^[A-Za-z][A-Za-z0-9]*$', alt))
        if not text:
            continue
        units.append(u)
    return units, labels


ASSIGN_RE = re.compile(r'^[A-Za-z][A-Za-z0-9.]*[%&!#$]?(\([^=]*\))?(\.[A-Za-z0-9.]+)?\s*=')
KEYWORDS_FIRST = ('PRINT', 'GOTO', 'GOSUB', 'RETURN', 'DIM', 'CLS', 'BEEP', 'EXIT', 'RESTORE', 'READ', 'INPUT', 'LOCATE', 'COLOR',
                  'ON ERROR', 'RESUME', 'RANDOMIZE', 'SWAP', 'CALL', 'POKE', 'SOUND')


def units_from_text(template):
    """units of a fixed template; `a||b` gives the alternative spelling b of the statement a (CALL form or NEXT variable);
    `@L1:` style label placeholders are written plainly (label names are listed by the caller)"""
    units = []
    for line in template.split('\n'):
        if not line.strip():
            continue
        ind = len(line) - len(line.lstrip())
        text = line.strip()
        alt = None
        if '||' in text:
            text, alt = [x.strip() for x in text.split('||', 1)]
        up = text.upper()
        lab = bool(re.match(r'^([A-Za-z][A-Za-z0-9]*:|\d+\b)', text)) and not up.startswith(('CASE', 'ELSE:'))
        body = re.sub(r'^([A-Za-z][A-Za-z0-9]*:|\d+)\s*', '', text) if lab else text
        bup = body.upper()
        data = bool(re.match(r'^DATA\b', bup))
        if re.match(r'^IF\b.*\bTHEN\b\s*\S', bup) and not bup.rstrip().endswith('THEN'):
            k = 'ifline'
        elif data or not body:
            k = 'other'
        elif ASSIGN_RE.match(body) or bup.startswith(KEYWORDS_FIRST) or (alt is not None and not bup.startswith('NEXT')):
            k = 'simple'
        else:
            k = 'other'
        units.append({'text': text, 'ind': ind, 'k': k, 'lab': lab, 'let': bool(ASSIGN_RE.match(body)) and not lab,
                      'call': alt if (alt is not None and not bup.startswith('NEXT')) else None,
                      'nxt': alt if (alt is not None and bup.startswith('NEXT')) else None,
                      'ne': any('<>' in p for s, p in split_strings(text) if not s), 'data': data, 'kind': 'text',
                      'lbl0': bool(re.match(r'^[A-Za-z][A-Za-z0-9]*$', text)) and k == 'simple',
                      'lbl1': bool(alt and re.match(r'^[A-Za-z][A-Za-z0-9]*$', alt))})
    return units


def stm_of(units):
    return [{'k': u['k'], 'lab': u['lab'], 'let': u['let'], 'call': u['call'] is not None, 'nxt': u['nxt'] is not None, 'ne': u['ne'],
             'lbl0': u['lbl0'], 'lbl1': u['lbl1']}
            for u in units]


# ---- styles --------------------------------------------------------------------------------
WORD_RE = re.compile(r'[A-Za-z][A-Za-z0-9]*')


def case_style(text, style, salt, data=False):
    if style == 0:
        return text

    def word(m):
        w = m.group(0)
        if style == 1:
            return w.lower()
        if style == 2:
            return w.upper()
        h = _h(salt, m.start(), w)
        return ''.join(ch.upper() if (h >> (i % 30)) & 1 else ch.lower() for i, ch in enumerate(w))

    def piece(p):
        return WORD_RE.sub(word, p)
    if data:
        # only the keyword: unquoted DATA items are case-sensitive content
        m = re.match(r'^(\s*(?:[A-Za-z][A-Za-z0-9]*:|\d+)?\s*)(DATA\b)(.*)$', text, re.I | re.S)
        if m:
            return m.group(1) + piece(m.group(2)) + m.group(3)
        return text
    # a comment keeps its text (it is not part of the program either way)
    return outside_strings(text, piece)


def blank_style(text, style, salt, data=False):
    if style == 0 or data:
        return text

    def piece(p, k):
        if style == 1:
            return re.sub(r' +', lambda m: ' ' * (len(m.group(0)) * 2 + 1) if _h(salt, k, m.start()) % 3 else '\t', p)
        if style == 2:
            q = re.sub(r' *([,;()=+*/\\]) *', r'\1', p)
            return q
        # 3: mixture
        def gap(m):
            h = _h(salt, k, m.start()) % 4
            return [' ', '   ', '\t', ' \t '][h]
        q = re.sub(r' +', gap, p)
        q = re.sub(r'[ \t]*([,;()]) *', lambda m: m.group(1) if _h(salt, k, m.start(), 1) % 2 else m.group(0), q)
        return q
    out = []
    for k, (s, p) in enumerate(split_strings(text)):
        out.append(p if s else piece(p, k))
    return ''.join(out)


COMMENTS = ["' plain remark", "' IF x THEN : PRINT \"q", "'", "' END SUB : NEXT ' again", "' REM-like remark: x = 1", "' 100 lbl: DATA 1,2"]
GAPS = ['', '   ', "' a comment line", 'REM a remark : PRINT 1', "\t", "'' IF THEN ELSE \"", 'rem lower case remark']


def label_names(labels, scheme):
    """old name -> new name"""
    if scheme == 0 or not labels:
        return {}
    n = len(labels)
    if scheme == 1:
        # other identifiers, in reverse alphabetical order of appearance
        return {l: 'zq%s%d' % (chr(ord('z') - (i % 26)), i) for i, l in enumerate(labels)}
    if scheme == 2:
        # line numbers, descending and of different lengths ("90" sorts after "100" as text)
        return {l: str(1000 - 91 * i if i % 2 == 0 else 90 - i) for i, l in enumerate(labels)}
    # 3: line numbers ascending / mixed-case names alternating
    return {l: (str(10 * (i + 1)) if i % 2 else 'Mixed%sCase' % chr(ord('A') + i % 26)) for i, l in enumerate(labels)}


def rename_labels(text, mapping):
    if not mapping:
        return text

    def piece(p):
        def word(m):
            w = m.group(0)
            new = mapping.get(w.lower())
            if new is None:
                return w
            return new
        q = re.sub(r'[A-Za-z][A-Za-z0-9]*\b(?![%&!#$(.])', word, p)
        # a label definition that became a line number loses its colon
        q = re.sub(r'^(\s*)(\d+):', r'\1\2 ', q)
        return q
    return outside_strings(text, piece)


def render(units, s, labels=()):
    """s: surface (dict with join, cmt, gap, let, call, nxt, ne as lists of 1-based indices; kase, blank, names)"""
    join, cmt, gap = set(s['join']), set(s['cmt']), set(s['gap'])
    let, call, nxt, ne = set(s['let']), set(s['call']), set(s['nxt']), set(s['ne'])
    mapping = label_names([l.lower() for l in labels], s['names'])
    lines = []
    salt = (s['kase'], s['blank'], s['names'])

    def gapline(i):
        return GAPS[_h('gap', i, salt) % len(GAPS)]
    if 0 in gap:
        lines.append(gapline(0))
    cur = None
    n = len(units)
    for i, u in enumerate(units, 1):
        t = u['text']
        if i in call and u['call']:
            t = u['call']
        if i in nxt and u['nxt']:
            t = u['nxt']
        if i in let and u['let']:
            t = 'LET ' + t
        if i in ne and u['ne']:
            t = outside_strings(t, lambda p: p.replace('<>', '><'))
        t = rename_labels(t, mapping) if not u['data'] else rename_labels_data(t, mapping)
        t = case_style(t, s['kase'], (salt, i), u['data'])
        t = blank_style(t, s['blank'], (salt, i), u['data'])
        if cur is None:
            cur = ' ' * u['ind'] + t if s['blank'] == 0 else ('\t' if s['blank'] == 1 else '' if s['blank'] == 2 else ' ' * (_h(salt, i) % 5)) + t
        else:
            cur += (' : ' if s['blank'] in (0, 1) else ':' if s['blank'] == 2 else ' :\t') + t
        if i in join and i < n:
            continue
        if i in cmt and not u['data']:
            cur += ' ' + COMMENTS[_h('cmt', i, salt) % len(COMMENTS)]
        lines.append(cur)
        cur = None
        if i in gap:
            lines.append(gapline(i))
    if cur is not None:
        lines.append(cur)
    return '\n'.join(lines) + '\n'


def rename_labels_data(text, mapping):
    """a DATA line: only its own label prefix is a label"""
    if not mapping:
        return text
    m = re.match(r'^(\s*)([A-Za-z][A-Za-z0-9]*):(.*)$', text, re.S)
    if m and m.group(2).lower() in mapping:
        new = mapping[m.group(2).lower()]
        return m.group(1) + new + (' ' if new.isdigit() else ':') + m.group(3)
    return text
