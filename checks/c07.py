"""C07  The virtual machine is total: every run ends in a halt or a trap.

(i)   Totality sweep: failing-capable statements inside and outside the reference subset
      (arithmetic, string functions, arrays, DATA, PRINT USING, `^`, device statements with a
      permissive and with a strict peripheral implementation) x handler modes (none, ON ERROR
      GOTO with RESUME NEXT / RESUME / no RESUME, ON ERROR RESUME NEXT, failure inside a SUB)
      x configurations; plus generated programs.  A run must end halted with a reason; no
      exception may escape cpu.tick().
(ii)  Trap classes: every executed instruction is validated by Trace_Traps.tla, which decides
      from the logged operand facts whether the instruction had to trap and with which class.
(iii) Interrupts: MC_Irq.tla checks the tick/interrupt model; for programs of a small set and
      EVERY instruction boundary k a fresh machine is ticked k times, the interrupt is
      requested (what the OS signal handler does) and one more tick is taken; Trace_Irq.tla
      validates halted / KEYBOARD_INTERRUPT / unchanged stack, frames, globals, devices, pc.
"""
import hashlib
import json
import os
import random
import signal

from lib import tlc, par, gen
from lib.common import Machinery

LEVEL = 'model_checking'
TRACE_CFG = '''SPECIFICATION Spec
INVARIANT Report
CHECK_DEADLOCK FALSE
'''
MCIRQ_CFG = '''SPECIFICATION Spec
CONSTANT N = %d
INVARIANT TypeOK
INVARIANT StoppedWhereAsked
INVARIANT NoProgressWhilePending
PROPERTY IrqStops
CHECK_DEADLOCK FALSE
'''

FAILING = [
    ('div0-int', 'z% = 0\nPRINT 10 \\ z%'), ('div0-flt', 'z! = 0\nPRINT 10 / z!'), ('mod0', 'z& = 0\nPRINT 10 MOD z&'),
    ('div0-dbl', 'z# = 0\nq# = 5 / z#'),
    ('ovf-add', 'a% = 32767\na% = a% + 1'), ('ovf-mul', 'a& = 100000\na& = a& * a&'), ('ovf-conv', 'a! = 1E+10\nb% = a!'),
    ('ovf-neg', 'a% = -32767 - 1\nb% = -a%'), ('ovf-abs', 'a& = -2147483647 - 1\nb& = ABS(a&)'), ('ovf-idiv', 'a% = -32767 - 1: b% = -1\nPRINT a% \\ b%'),
    ('ovf-single', 'a# = 1D+300\nb! = a#'), ('ovf-for', 'FOR i% = 32766 TO 32767\nNEXT'),
    ('subscript', 'DIM a%(3)\ni% = 4\na%(i%) = 1'), ('subscript-neg', 'DIM a%(1 TO 3)\ni% = 0\nPRINT a%(i%)'),
    ('subscript-2d', 'DIM a$(2, 2)\ni% = 3\na$(1, i%) = "x"'), ('dim-lb-gt-ub', 'n% = 1\nDIM a%(5 TO n%)'),
    ('lbound-dim', 'DIM a%(3)\nn% = 2\nPRINT LBOUND(a%, n%)'),
    ('asc-empty', 'e$ = ""\nPRINT ASC(e$)'), ('chr-300', 'n% = 300\nPRINT CHR$(n%)'), ('chr-neg', 'n% = -1\nPRINT CHR$(n%)'),
    ('left-neg', 'n% = -1\nPRINT LEFT$("abc", n%)'), ('right-neg', 'n% = -2\nPRINT RIGHT$("abc", n%)'),
    ('mid-start0', 'n% = 0\nPRINT MID$("abc", n%)'), ('mid-len-neg', 'n% = -1\nPRINT MID$("abc", 1, n%)'),
    ('space-neg', 'n% = -1\nPRINT SPACE$(n%)'), ('string-neg', 'n% = -1\nPRINT STRING$(n%, 65)'),
    ('string-300', 'n% = 300\nPRINT STRING$(3, n%)'), ('string-empty', 'e$ = ""\nPRINT STRING$(3, e$)'),
    ('instr-0', 'n% = 0\nPRINT INSTR(n%, "abc", "b")'),
    ('read-past', 'DATA 1\nREAD a%, b%'), ('read-text', 'DATA abc\nREAD a%'), ('read-nodata', 'READ a$'),
    ('pow-big', 'x! = 2\nPRINT x! ^ 10000'), ('pow-neg-frac', 'x# = -8\nPRINT x# ^ .5'), ('pow-0-neg', 'z! = 0\nPRINT z! ^ -1'),
    ('pow-int-neg', 'a% = 2: b% = -1\nPRINT a% ^ b%'), ('pow-int-big', 'a% = 10: b% = 9\nPRINT a% ^ b%'),
    ('int-big', 'x! = 1E+20\nPRINT INT(x!)'), ('cint-big', 'x! = 1E+10\nPRINT CINT(x!)'), ('clng-big', 'x# = 1D+20\nPRINT CLNG(x#)'),
    ('val-junk', 'PRINT VAL("&HZZ"); VAL("1E999"); VAL(""); VAL("12abc"); VAL("99999999999")'),
    ('using-arity', 'PRINT USING "## ##"; 1'), ('using-many', 'PRINT USING "##"; 1; 2'), ('using-bang-empty', 'PRINT USING "!"; ""'),
    ('using-lit', 'PRINT USING "abc";'), ('using-type', 'PRINT USING "##"; "x"'), ('using-type2', 'PRINT USING "&"; 5'),
    ('using-trailing-us', 'PRINT USING "##_"; 1'), ('using-big', 'PRINT USING "##.##"; 1E+30'), ('using-empty', 'PRINT USING ""; 1'),
    ('sound-low', 'SOUND 10, 1'), ('sound-dur', 'SOUND 440, 70000'), ('sound-neg', 'SOUND 440, -1'), ('defseg-big', 'DEF SEG = 70000'),
    ('defseg-neg', 'DEF SEG = -1'), ('poke-noseg', 'POKE 10, 1'), ('poke-val', 'DEF SEG = 0\nPOKE 1047, 300'), ('poke-vid', 'DEF SEG = &HB800\nPOKE 0, 65'),
    ('peek', 'PRINT PEEK(10)'), ('peek-keys', 'DEF SEG = 0\nPRINT PEEK(1047)'), ('screen1', 'SCREEN 1'), ('screen-args', 'SCREEN 0, 1'),
    ('width', 'WIDTH 40, 25'), ('width1', 'WIDTH 80'), ('viewprint', 'VIEW PRINT 2 TO 5'), ('viewprint0', 'VIEW PRINT'),
    ('color-big', 'COLOR 40, 9, 20'), ('color1', 'COLOR 3'), ('color-gap', 'COLOR , 2'), ('locate', 'LOCATE 30, 90'), ('locate1', 'LOCATE 5'),
    ('locate-cursor', 'LOCATE , , 1'), ('kill', 'KILL "nosuch.fil"'), ('kill-abs', 'KILL "C:\\x"'), ('bload', 'BLOAD "x.bin", 0'),
    ('bsave', 'BSAVE "x.bin", 0, 10'), ('play', 'PLAY "xyz"'), ('inkey', 'k$ = INKEY$\nPRINT LEN(k$)'), ('input-sameline', 'INPUT ; a%\nPRINT a%'),
    ('randomize', 'RANDOMIZE -5.5\nPRINT RND(-1); RND(0); RND'), ('timer', 'PRINT TIMER'),
    ('return-no-gosub', 'RETURN'), ('resume-no-error', 'RESUME'), ('resume-next-no-error', 'RESUME NEXT'), ('on-error-goto-0', 'ON ERROR GOTO 0'),
    ('deep-recursion', 'r 1\nSUB r (n%)\nr n% + 1\nEND SUB'), ('gosub-loop', 'a: GOSUB a'),
    ('inf-cint', 'x# = 1D+308\ny# = x# * 1000\nPRINT CINT(y#)'), ('inf-int', 'x# = 1D+308\ny# = x# * 1000\nPRINT INT(y#)'),
    ('inf-conv', 'x# = 1D+308\ny# = x# * 1000\nn& = y#'), ('inf-print', 'x# = 1D+308\ny# = x# * 1000\nPRINT y#; y# - y#; STR$(y#)'),
    ('inf-using', 'x# = 1D+308\ny# = x# * 1000\nPRINT USING "##.#"; y#'), ('inf-single', 'x# = 1D+308\ny# = x# * 1000\ns! = y#'),
    ('inf-idx', 'DIM a%(3)\nx# = 1D+308\ny# = x# * 1000\nPRINT a%(y#)'), ('inf-chr', 'x# = 1D+308\ny# = x# * 1000\nPRINT CHR$(y#)'),
    ('inf-for', 'x# = 1D+308\ny# = x# * 1000\nFOR i% = 1 TO y#\nNEXT'), ('nan-cmp', 'x# = 1D+308\ny# = x# * 1000\nz# = y# - y#\nIF z# = z# THEN PRINT 1 ELSE PRINT 0'),
    ('big-string', 's$ = "x"\nFOR i% = 1 TO 12\ns$ = s$ + s$\nNEXT\nPRINT LEN(s$)'),
    # an array that is never DIMmed, first used through a reference (READ target); ERR before any error
    ('implicit-array-read', 'DATA 5\nREAD q%(2)\nPRINT q%(2); q%(0)'), ('err-before-error', 'PRINT ERR'),
]
MODES = ['none', 'goto-rn', 'goto-resume', 'goto-nores', 'resume-next', 'in-sub', 'in-sub-rn', 'goto-off']


def wrap(body, mode):
    """places the failing statements under a handler regime"""
    if '\nSUB ' in body:
        head, tail = body.split('\nSUB ', 1)
        tail = '\nSUB ' + tail
    else:
        head, tail = body, ''
    hl = head.split('\n')
    if mode == 'none':
        return head + '\nPRINT "after"\n' + tail.lstrip('\n') + ('\n' if tail else '')
    if mode in ('goto-rn', 'goto-resume', 'goto-nores', 'goto-off'):
        h = {'goto-rn': 'h: PRINT "H"; ERR\nRESUME NEXT', 'goto-resume': 'h: PRINT "H"; ERR\nRESUME',
             'goto-nores': 'h: PRINT "H"; ERR', 'goto-off': 'h: PRINT "H"; ERR\nON ERROR GOTO 0'}[mode]
        return 'ON ERROR GOTO h\n' + head + '\nPRINT "after"\nEND\n' + h + '\n' + tail.lstrip('\n') + ('\n' if tail else '')
    if mode == 'resume-next':
        return 'ON ERROR RESUME NEXT\n' + head + '\nPRINT "after"\n' + tail.lstrip('\n') + ('\n' if tail else '')
    if mode in ('in-sub', 'in-sub-rn'):
        if tail or any(l.startswith('DATA') or l.startswith('DIM') for l in hl) or 'GOSUB' in head or 'RETURN' in head or 'RESUME' in head or ':' in head.split('\n')[0][:3]:
            return None
        pre = 'ON ERROR GOTO h\n' if mode == 'in-sub-rn' else ''
        post = '\nEND\nh: PRINT "H"; ERR\nRESUME NEXT' if mode == 'in-sub-rn' else ''
        return pre + 'doit\nPRINT "after"' + post + '\nSUB doit\n' + head + '\nPRINT "insub"\nEND SUB\n'
    raise ValueError(mode)


def strict_impl(script):
    """peripherals with the device-side checks of machine.py active, scripted inputs"""
    from lib import qb
    from qvm.machine import BasePeripheralsImpl, DumbTerminalMixin

    class Strict(BasePeripheralsImpl, DumbTerminalMixin):
        def __init__(self):
            super().__init__()
            self.events = []
            self.lines = list(script.get('lines', []))
            self.exhausted = False

        def terminal_print(self, text):
            self.events.append(('terminal_print', text))

        def terminal_input(self, same_line):
            if same_line:
                return DumbTerminalMixin.terminal_input(self, same_line)
            if not self.lines:
                self.exhausted = True
                raise qb.ScriptExhausted()
            return self.lines.pop(0)

        def terminal_inkey(self):
            return ''

        def time_get_time(self):
            return 1234.5
    return Strict()


def _job(job):
    from lib import qb, tick
    name, mode, text, O, g, strict = job
    c = qb.compile_text(text, O, g)
    if c['st'] != 'ok':
        return {'name': name, 'mode': mode, 'text': text, 'cfg': [O, g], 'strict': strict, 'compile': c['st'],
                'detail': {k: v for k, v in c.items() if k not in ('code', 'bytes')}}
    try:
        mod = qb.load_module(c['bytes'])
    except BaseException as e:
        return {'name': name, 'mode': mode, 'text': text, 'cfg': [O, g], 'strict': strict, 'compile': 'crash',
                'detail': {'type': type(e).__name__, 'where': qb.where_of(e), 'stage': 'load'}}
    tr = tick.TickRecorder(mod, maxticks=1500)
    script = {'lines': ['5', '6'], 'rnd': [0.25, 0.5, 0.75], 'timer': [100.0], 'keys': ['k']}
    impl = strict_impl(script) if strict else None
    rec, out, cpu = qb.run_module(mod, script, budget=4000, observer=tr, recorder=impl)
    return {'name': name, 'mode': mode, 'text': text, 'cfg': [O, g], 'strict': strict,
            'out': {k: v for k, v in out.items() if k != 'stdout'}, 'ticks': tr.ticks}


def digest(x):
    return hashlib.sha1(repr(x).encode('utf-8', 'replace')).hexdigest()[:12]


def state_digests(cpu, rec):
    frames = []
    f = cpu.cur_frame
    while f is not None:
        frames.append(repr(f.cells))
        f = f.prev_frame
    return [digest([repr(c) for c in cpu.stack]), digest(frames), digest(repr(cpu.globals_segment.cells)),
            digest(len(rec.events)), digest((cpu.pc,))]


def _irq_job(job):
    from lib import qb
    import io as _io
    import contextlib
    name, text, O, g, ks = job
    c = qb.compile_text(text, O, g)
    if c['st'] != 'ok':
        return {'name': name, 'fail': c['st']}
    mod = qb.load_module(c['bytes'])
    # free run: number of ticks
    rec, out, cpu = qb.run_module(mod, {'lines': ['1', '2'], 'rnd': [0.5] * 8, 'timer': [1.0] * 8}, budget=600)
    n = out['ticks']
    cases = []
    from qvm.machine import QvmMachine
    for k in (range(n) if ks is None else [k for k in ks if k < n]):
        r = qb.Recorder({'lines': ['1', '2'], 'rnd': [0.5] * 8, 'timer': [1.0] * 8})
        with contextlib.redirect_stdout(_io.StringIO()):
            m = QvmMachine(mod, impl=r)
            cp = m.cpu
            try:
                for _ in range(k):
                    cp.tick()
                if cp.halted:
                    continue
                pre = state_digests(cp, r)
                armed = cp.trap_target is not None and not cp.error_handler_active
                cp.signal_handler(signal.SIGINT, None)
                cp.tick()
                post = state_digests(cp, r)
                cases.append({'k': k, 'pre': pre, 'post': post, 'armed': bool(armed), 'halted': bool(cp.halted),
                              'reason': cp.halt_reason.name, 'trap': cp.last_trap.name if cp.last_trap else ''})
            except Exception as e:
                cases.append({'k': k, 'pre': ['x'] * 5, 'post': ['y'] * 5, 'armed': False, 'halted': False,
                              'reason': 'EXC:' + type(e).__name__, 'trap': ''})
    return {'name': name, 'cfg': [O, g], 'n': n, 'cases': cases, 'text': text}


IRQ_PROGS = [
    ('loop', 'FOR i% = 1 TO 4\n  s& = s& + i%\n  PRINT s&;\nNEXT\nPRINT "done"\n'),
    ('calls', 'DIM a%(3)\nGOSUB g\nq 2\nPRINT f%(3); a%(1)\nEND\ng: a%(1) = 7: RETURN\nSUB q (n%)\n  IF n% > 0 THEN q n% - 1\n  PRINT n%;\nEND SUB\nFUNCTION f% (x%)\n  f% = x% * 2\nEND FUNCTION\n'),
    ('input', 'INPUT "a"; a%\nx$ = STR$(a%) + "!"\nPRINT x$; LEN(x$)\nt! = TIMER\nr! = RND\nPRINT t! + r!\n'),
    ('handler', 'ON ERROR GOTO h\nz% = 0\nPRINT 1 \\ z%\nPRINT "after"\nEND\nh: PRINT "H"\nRESUME NEXT\n'),
]


def validate(work, module, cases, name):
    out = []
    SH = 250 if module == 'Trace_Traps' else 4000
    for si in range(0, len(cases), SH):
        shard = cases[si:si + SH]
        path = os.path.join(work, '%d-%s' % (si, name))
        tlc.write_json(path, shard)
        r = tlc.run_tlc(module, TRACE_CFG, env={'CASES': path}, workers=1, timeout=1700, heap='3g')
        if r.error:
            raise Machinery('%s: %s' % (module, r.error[:1500]))
        by = {x['tid']: x for x in r.printed}
        if len(by) != len(shard):
            raise Machinery('%s: %d verdicts for %d traces' % (module, len(by), len(shard)))
        out += [by[c['tid']] for c in shard]
        os.unlink(path)
    return out


def run(ctx):
    work = tlc.scratch_dir('qbv-c07-')
    try:
        _run(ctx, work)
    finally:
        import shutil
        shutil.rmtree(work, ignore_errors=True)


def _run(ctx, work):
    rng = random.Random(ctx.seed)
    # ---- model of tick / interrupt ---------------------------------------------------
    rm = tlc.run_tlc('MC_Irq', MCIRQ_CFG % ctx.pick(12, 40), workers=4, timeout=600)
    if rm.error:
        if rm.invariant or 'violated' in rm.error:
            ctx.violation('model-invariant', rm.invariant or 'IrqStops', {'tlc': rm.error[:2000]})
            return
        raise Machinery('MC_Irq: ' + rm.error[:1200])
    # ---- (i) totality sweep ------------------------------------------------------------
    cfgs = [(0, True), (2, True), (1, False), (0, False), (2, False), (1, True)]
    jobs = []
    k = 0
    for name, body in FAILING:
        for mode in MODES:
            text = wrap(body, mode)
            if text is None:
                continue
            sel = cfgs if not ctx.quick() else [cfgs[k % 2], cfgs[2 + k % 4]]
            k += 1
            for (O, g) in sel:
                jobs.append((name, mode, text, O, g, False))
            if any(w in body for w in ('SOUND', 'DEF SEG', 'POKE', 'PEEK', 'SCREEN', 'WIDTH', 'VIEW', 'COLOR', 'LOCATE', 'KILL', 'BLOAD', 'BSAVE', 'PLAY', 'INKEY', 'INPUT ;')):
                jobs.append((name, mode, text, sel[0][0], sel[0][1], True))
    ngen = ctx.pick(20, 600)
    for i in range(ngen):
        prog, text, ast = gen.generate(ctx.seed * 100000 + 90000 + i, size=10, depth=3, wide=True)
        jobs.append(('gen%d' % i, 'none', text, cfgs[i % 6][0], cfgs[i % 6][1], False))
    res = par.pmap(_job, jobs, chunk=4)
    tcases = []
    outcomes = {}
    for r in res:
        if 'compile' in r:
            # the compiler's business (C05/C06); recorded in evidence only, except crashes of accepted programs
            outcomes['not-compiled:' + r['compile']] = outcomes.get('not-compiled:' + r['compile'], 0) + 1
            continue
        how = r['out'].get('how')
        outcomes[how] = outcomes.get(how, 0) + 1
        if how == 'host-exception':
            ctx.violation('host-exception', '%s@%s' % (r['out'].get('type'), r['out'].get('where')),
                          {'program': r['text'], 'cfg': r['cfg'], 'strict': r['strict'], 'name': r['name'], 'mode': r['mode'], 'out': r['out']})
        elif how not in ('halt', 'eoc', 'trap', 'budget', 'script'):
            ctx.violation('undefined-end', str(how), {'program': r['text'], 'cfg': r['cfg'], 'out': r['out']})
        tcases.append({'tid': len(tcases), 'ticks': [{'ins': t['ins'], 'top': t['top'], 'vals': t['vals'], 'trap': t['trapseen'], 'handled': t['handled']}
                                                     for t in r['ticks']], '_r': r})
    tv = validate(work, 'Trace_Traps', [{'tid': c['tid'], 'ticks': c['ticks']} for c in tcases], 'traps.json')
    nticks = 0
    for c, v in zip(tcases, tv):
        nticks += len(c['ticks'])
        if v['verdict'] != 'ok':
            t = c['ticks'][v['l'] - 1]
            r = c['_r']
            ctx.violation(v['verdict'], '%s->%s' % (t['ins']['b'] + t['ins']['t'] + (':' + t['ins']['dev'] + '.' + t['ins']['dop'] if t['ins']['b'] == 'io' else ''), t['trap'] or 'none'),
                          {'program': r['text'], 'cfg': r['cfg'], 'strict': r['strict'], 'name': r['name'], 'mode': r['mode'], 'tick': t})
    # ---- (iii) interrupts at every boundary ---------------------------------------------
    ijobs = []
    for i, (name, text) in enumerate(IRQ_PROGS):
        for (O, g) in ([(0, True), (2, False)] if ctx.quick() else cfgs):
            ijobs.append((name, text, O, g, None))
    for i in range(ctx.pick(6, 120)):
        prog, text, ast = gen.generate(ctx.seed * 100000 + 95000 + i, size=8, depth=2, wide=True)
        ijobs.append(('gen%d' % i, text, cfgs[i % 6][0], cfgs[i % 6][1], sorted(rng.sample(range(600), 60))))
    ires = par.pmap(_irq_job, ijobs, chunk=1)
    icases = []
    for r in ires:
        if 'fail' in r:
            continue
        for c in r['cases']:
            c2 = dict(c)
            c2['tid'] = len(icases)
            c2['_r'] = (r['name'], r['cfg'], r['text'])
            icases.append(c2)
    iv = validate(work, 'Trace_Irq', [{k: v for k, v in c.items() if k != '_r'} for c in icases], 'irq.json')
    for c, v in zip(icases, iv):
        if v['verdict'] != 'ok':
            ctx.violation('irq:' + v['verdict'], c['reason'] if v['verdict'] in ('not-halted', 'wrong-trap') else 'boundary',
                          {'program': c['_r'][2], 'cfg': c['_r'][1], 'boundary': c['k'], 'record': {k: v2 for k, v2 in c.items() if k != '_r'}})
    # binding demonstration: a recorded trap class changed / an interrupt tick that executed an instruction
    import copy
    demo_t = []
    for c in tcases:
        ks = [i for i, t in enumerate(c['ticks']) if t['trap'] == 'DIVISION_BY_ZERO']
        if ks and len(demo_t) < 5:
            d = {'tid': len(demo_t), 'ticks': copy.deepcopy(c['ticks'])}
            d['ticks'][ks[0]]['trap'] = 'INVALID_CELL_VALUE'
            demo_t.append(d)
    dv = validate(work, 'Trace_Traps', demo_t, 'demo-t.json') if demo_t else []
    demo_i = []
    for c in icases[:20]:
        if not c['armed'] and c['halted']:
            d = {k: v for k, v in c.items() if k != '_r'}
            d['post'] = list(d['post'])
            d['post'][0] = 'changed'
            d['tid'] = len(demo_i)
            demo_i.append(d)
    di = validate(work, 'Trace_Irq', demo_i, 'demo-i.json') if demo_i else []
    bd = {'corrupted': len(demo_t) + len(demo_i), 'rejected': sum(1 for x in dv + di if x['verdict'] != 'ok')}
    ctx.coverage.update({
        'states': rm.distinct + nticks + len(icases), 'transitions': rm.generated + nticks + len(icases),
        'traces_validated_against_impl': len(tcases) + len(icases),
        'runs': len(res), 'run_outcomes': outcomes, 'ticks_checked_for_trap_class': nticks,
        'interrupt_boundaries': len(icases), 'interrupt_programs': len(ijobs),
        'failing_statement_templates': len(FAILING), 'handler_modes': MODES, 'binding_demo': bd,
        'samples': [{'program': tcases[0]['_r']['text'], 'outcome': tcases[0]['_r']['out']}] if tcases else [],
    })
    if bd['rejected'] != bd['corrupted']:
        raise Machinery('binding demonstration failed: %r' % bd)


def replay(ctx, case):
    print(case.get('program'))
    print(json.dumps({k: v for k, v in case.items() if k != 'program'}, indent=1)[:3000])
    if 'program' in case and 'cfg' in case:
        r = _job((case.get('name', 'replay'), case.get('mode', ''), case['program'], case['cfg'][0], case['cfg'][1], case.get('strict', False)))
        print(r.get('out'), r.get('compile'), r.get('detail'))
    ctx.coverage.update({'evaluations': 1, 'distinct_nontrivial': 2, 'samples': [case.get('name')]})
