"""C12  Debugger stepping and breakpoints are exact and transparent.

Debugger.tla defines the debugger as a transition system over a recorded free run of a -g module:
position idx in the run, set of line breakpoints, and for every command the set of admissible
stops (stepi, nexti, step, next, continue, break, delbr).  MC_Debugger.tla lets TLC enumerate
every command history of length <= K for every case, checks the C12 theorems (progress, next
stays out of calls, continue stops exactly at breakpoint addresses) in every reachable debugger
state, and prints the histories.  Each history is replayed into qvm/dbg.py (Cmd.onecmd on a fresh
machine); after every command the harness records instructions executed, a digest of the whole
machine state and of the device calls made, and the debugger's answer.  Trace_Debugger.tla
validates every recorded session against the relation: a wrong stop, an instruction executed by
a breakpoint command, a state or device history that differs from the free run at the same
instruction count, execution past the end of the free run, or a crash is a violation.
"""
import json
import os
import random

from lib import tlc, par, gen, qb, dbgdrive
from lib.common import Machinery

LEVEL = 'model_checking'

MC_CFG = '''SPECIFICATION Spec
CONSTANT K = %d
INVARIANT Progress
INVARIANT NextStaysOut
INVARIANT ContinueExact
INVARIANT InRange
INVARIANT Report
CHECK_DEADLOCK FALSE
'''
TRACE_CFG = '''SPECIFICATION Spec
CHECK_DEADLOCK FALSE
'''

PROGRAMS = {
    'gosub-loop': ('''x = 1
' a comment line

FOR i = 1 TO 2
  x = x + i : PRINT x
NEXT i
GOSUB r
PRINT "done"
END
r:
x = x * 2
RETURN
''', None),
    'recursion': ('''DECLARE FUNCTION f% (n%)
DECLARE SUB show (v%)
a% = f%(3)
show a%
PRINT "end"

FUNCTION f% (n%)
  IF n% <= 1 THEN
    f% = 1
  ELSE
    f% = n% * f%(n% - 1)
  END IF
END FUNCTION

SUB show (v%)
  PRINT v%
END SUB
''', None),
    'select-input': ('''DIM a(3) AS INTEGER
INPUT n%
DO
  SELECT CASE n%
  CASE 1
    PRINT "one"
  CASE 2, 3
    PRINT "few"
  CASE ELSE
    PRINT "many"
  END SELECT
  READ d%
  a(n%) = d%
  n% = n% - 1
LOOP WHILE n% > 0
DATA 10, 20, 30
PRINT a(1); a(2)
''', {'lines': ['2']}),
    'handler': ('''DECLARE SUB boom (d%)
ON ERROR GOTO h
boom 0
PRINT "after"
z% = 0
y% = 5 \\ z%
PRINT "end"
END
h:
PRINT "err"; ERR
RESUME NEXT

SUB boom (d%)
  PRINT 10 \\ d%
  PRINT "unreached"
END SUB
''', None),
    'trap-end': ('''DIM a(2) AS INTEGER
i% = 1
WHILE i% < 5
  a(i%) = i%
  i% = i% + 1
WEND
PRINT "never"
''', None),
    'end-middle': ('''PRINT 1
IF 1 THEN PRINT 2: END
PRINT 3
lbl:
PRINT 4


''', None),
    'procs-first': ('''DECLARE SUB early (n%)
DECLARE FUNCTION twice% (n%)
SUB early (n%)
  PRINT n%
  n% = twice%(n%)
END SUB
FUNCTION twice% (n%)
  twice% = n% * 2
END FUNCTION
x% = 1
early x%
PRINT x%
early x%
PRINT "m"
''', None),
    'nested-calls': ('''DECLARE SUB outer (n%)
DECLARE SUB inner (n%)
outer 2
PRINT "back"
outer 1

SUB outer (n%)
  FOR k% = 1 TO n%
    inner k%
  NEXT k%
END SUB

SUB inner (n%)
  PRINT n%;
  GOSUB t
  EXIT SUB
t:
  PRINT "t"
  RETURN
END SUB
''', None),
}


def build_case(name, text, script, O, nlines):
    r = qb.compile_text(text, O, True)
    if r['st'] != 'ok':
        return {'name': name, 'O': O, 'fail': r}
    module = qb.load_module(r['bytes'])
    fr = dbgdrive.free_run(module, script)
    if fr is None:
        return None
    sm = fr['sm']
    src_lines = text.count('\n') + 1
    have = sm.lines()
    import zlib
    rng = random.Random(zlib.crc32(("%s%d" % (name, O)).encode()))
    cand = list(range(1, src_lines + 2))
    # prefer lines inside loops/routines (statements executed more than once) and lines without code
    picked = []
    blanks = [l for l in cand if l not in have]
    rng.shuffle(blanks)
    code = [l for l in have]
    rng.shuffle(code)
    picked = sorted(set(code[:max(1, nlines - 1)] + blanks[:1]))[:nlines]
    if src_lines + 1 not in picked and len(picked) < nlines + 1:
        picked.append(src_lines + 1)      # past the end: no such line
    L = [{'ln': l, 'addr': sm.line_addr(l)} for l in picked]
    return {'name': name, 'O': O, 'text': text, 'script': script, 'bytes': r['bytes'], 'T': fr['T'], 'L': L,
            'reason': fr['reason']}


def _build(job):
    kind, payload, O, nlines = job
    if kind == 'fixed':
        text, script = PROGRAMS[payload]
        return build_case(payload, text, script, O, nlines)
    prog, text, ast = gen.generate(payload, size=8, depth=2, wide=False)
    return build_case('gen%d' % payload, text, None, O, nlines)


def _replay_job(job):
    b, script, sid, c, cmds = job
    module = _MODCACHE.get(c)
    if module is None:
        module = qb.load_module(b)
        _MODCACHE[c] = module
    s = dbgdrive.run_session(module, script, cmds)
    s.pop('events', None)
    s['id'] = sid
    s['c'] = c
    return s


_MODCACHE = {}


def validate(work, cases, sessions):
    cpath = os.path.join(work, 'dbg-cases.json')
    tlc.write_json(cpath, [{'T': c['T'], 'L': c['L']} for c in cases])
    out = {}
    SH = 4000
    for si in range(0, len(sessions), SH):
        shard = sessions[si:si + SH]
        spath = os.path.join(work, 'dbg-sessions-%d.json' % si)
        tlc.write_json(spath, shard)
        r = tlc.run_tlc('Trace_Debugger', TRACE_CFG, env={'CASES_FILE': cpath, 'SESSIONS_FILE': spath}, workers=1,
                        timeout=1700, heap='4g')
        if r.error:
            raise Machinery('Trace_Debugger: ' + r.error[:1500])
        for x in r.printed:
            out[x['id']] = x['r']
        os.unlink(spath)
    if len(out) != len(sessions):
        raise Machinery('Trace_Debugger: %d verdicts for %d sessions' % (len(out), len(sessions)))
    return out


def run(ctx):
    work = tlc.scratch_dir('qbv-c12-')
    try:
        _run(ctx, work)
    finally:
        import shutil
        shutil.rmtree(work, ignore_errors=True)


def trigger_of(case, sess, v):
    k = v['k']
    if k <= 0:
        return 'start'
    s = sess['steps'][k - 1]
    T = case['T']
    prev = sess['steps'][k - 2]['n'] if k > 1 else sess['start']
    fin = len(T)
    parts = [s['cmd']]
    if v['v'] == 'crash':
        parts.append(s['exc'])
    if prev >= fin:
        parts.append('at-finished:' + case['reason'])
    elif s['n'] > fin:
        parts.append('ran-past:' + case['reason'])
    elif s['n'] == fin and v['v'] not in ('crash',):
        parts.append('to-end')
    return ':'.join(parts)


def _run(ctx, work):
    rng = random.Random(ctx.seed)
    K = ctx.pick(3, 4)
    nlines = ctx.pick(3, 2)      # thorough: longer histories over fewer breakpoint lines
    jobs = []
    for name in PROGRAMS:
        for O in (0, 1, 2):
            jobs.append(('fixed', name, O, nlines))
    ngen = ctx.pick(6, 60)
    for i in range(ngen):
        jobs.append(('gen', ctx.seed * 1000 + i, i % 3, nlines))
    built = [b for b in par.pmap(_build, jobs, chunk=1) if b is not None]
    cases = []
    for b in built:
        if 'fail' in b:
            ctx.violation('rejected-or-crashed', '%s:%s' % (b['name'], b['fail'].get('st')), {'name': b['name'], 'detail': {k: v for k, v in b['fail'].items() if k != 'bytes'}})
            continue
        if len(b['T']) > 400 or len(b['T']) < 4:
            continue
        cases.append(b)
    if not cases:
        raise Machinery('no debugger cases')
    cpath = os.path.join(work, 'mc-cases.json')
    tlc.write_json(cpath, [{'T': c['T'], 'L': c['L']} for c in cases])
    hist = {}
    if ctx.quick():
        r = tlc.run_tlc('MC_Debugger', MC_CFG % K, env={'CASES_FILE': cpath}, workers=12, timeout=3000, heap='10g')
        if r.error or r.invariant:
            raise Machinery('MC_Debugger: ' + str(r.invariant or r.error)[:1500])
        for x in r.printed:
            hist.setdefault(x['c'], set()).add(tuple((a, b) for a, b in x['h']))
    else:
        # thorough: histories of length K over the fixed programs, of length K - 1 over the generated ones
        # (cases are ordered fixed first; the case numbers of the second run are shifted back)
        nfix = sum(1 for c in cases if c['name'] in PROGRAMS)
        fpath = os.path.join(work, 'mc-fixed.json')
        tlc.write_json(fpath, [{'T': c['T'], 'L': c['L']} for c in cases[:nfix]])
        r = tlc.run_tlc('MC_Debugger', MC_CFG % K, env={'CASES_FILE': fpath}, workers=12, timeout=6000, heap='12g')
        if r.error or r.invariant:
            raise Machinery('MC_Debugger: ' + str(r.invariant or r.error)[:1500])
        for x in r.printed:
            hist.setdefault(x['c'], set()).add(tuple((a, b) for a, b in x['h']))
        if len(cases) > nfix:
            gpath = os.path.join(work, 'mc-gen.json')
            tlc.write_json(gpath, [{'T': c['T'], 'L': c['L']} for c in cases[nfix:]])
            rg = tlc.run_tlc('MC_Debugger', MC_CFG % (K - 1), env={'CASES_FILE': gpath}, workers=12, timeout=6000, heap='12g')
            if rg.error or rg.invariant:
                raise Machinery('MC_Debugger (generated): ' + str(rg.invariant or rg.error)[:1500])
            for x in rg.printed:
                hist.setdefault(x['c'] + nfix, set()).add(tuple((a, b) for a, b in x['h']))
    # deeper random histories
    r2 = tlc.run_tlc('MC_Debugger', MC_CFG % ctx.pick(8, 12), env={'CASES_FILE': cpath}, workers=1, simulate=ctx.pick(300, 6000),
                     depth=ctx.pick(9, 13), seed=ctx.seed, timeout=1500, heap='4g')
    if r2.error or r2.invariant:
        raise Machinery('MC_Debugger simulate: ' + str(r2.invariant or r2.error)[:1500])
    nsim = 0
    for x in r2.printed:
        h = tuple((a, b) for a, b in x['h'])
        if len(h) > K:
            hist.setdefault(x['c'], set()).add(h)
            nsim += 1
    sessions_in = []
    for c, hs in hist.items():
        hs = sorted(hs)
        # drop proper prefixes
        keep = []
        for i, h in enumerate(hs):
            if i + 1 < len(hs) and hs[i + 1][:len(h)] == h:
                continue
            keep.append(h)
        for h in keep:
            sessions_in.append((c, [list(x) for x in h]))
    rng.shuffle(sessions_in)
    cap = ctx.pick(9000, 400000)
    sessions_in = sessions_in[:cap]
    sessions_in.sort(key=lambda x: x[0])
    jobs = [(cases[c - 1]['bytes'], cases[c - 1]['script'], i, c, cmds) for i, (c, cmds) in enumerate(sessions_in)]
    sessions = par.pmap(_replay_job, jobs, chunk=50)
    verdicts = validate(work, cases, sessions)
    stats = {}
    for s in sessions:
        v = verdicts[s['id']]
        stats[v['v']] = stats.get(v['v'], 0) + 1
        if v['v'] == 'ok':
            continue
        c = cases[s['c'] - 1]
        ctx.violation(v['v'], trigger_of(c, s, v), {'name': c['name'], 'O': c['O'], 'program': c['text'], 'script': c['script'],
                                                 'lines': c['L'], 'session': s, 'verdict': v})
    # binding demonstration: a session with a corrupted instruction count must be rejected
    demo = None
    for s in sessions:
        if verdicts[s['id']]['v'] == 'ok' and any(st['cmd'] == 'step' for st in s['steps']):
            demo = json.loads(json.dumps(s))
            break
    if demo is not None:
        for st in demo['steps']:
            if st['cmd'] == 'step':
                st['n'] += 1
                break
        demo['id'] = 0
        dv = validate(work, cases, [demo])
        if dv[0]['v'] == 'ok':
            raise Machinery('binding demonstration: corrupted session accepted')
    ctx.coverage.update({
        'states': r.distinct, 'transitions': r.generated, 'traces_validated_against_impl': len(sessions),
        'cases': len(cases), 'histories_enumerated': len(r.printed), 'histories_simulated': nsim, 'exhaustive_len': K,
        'verdicts': stats, 'binding_demo_rejected': demo is not None,
        'samples': [{'program': cases[0]['name'], 'history': sessions[0]['steps'][:3]}] if sessions else [],
    })


def replay(ctx, case):
    print(case.get('program'))
    r = qb.compile_text(case['program'], case['O'], True)
    module = qb.load_module(r['bytes'])
    cmds = [[s['cmd'], s['l']] for s in case['session']['steps']]
    s = dbgdrive.run_session(module, case.get('script'), cmds)
    print(json.dumps(s['steps'], indent=1)[:3000])
    print(json.dumps(case.get('verdict')))
    ctx.coverage.update({'evaluations': 1, 'samples': [case.get('name')]})
