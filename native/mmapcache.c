/* LD_PRELOAD shim for the verification harness only.
 * CPython 3.11+/3.12 allocates its per-thread "data stack" in 16 KiB chunks with
 * mmap and returns a chunk with munmap as soon as the frame depth drops below
 * it.  pyparsing's deep recursive descent makes the depth oscillate across
 * chunk boundaries, i.e. ~2000 mmap/munmap pairs per compiled line; in this
 * sandbox one munmap costs ~0.2 ms.  The shim keeps freed 16 KiB anonymous
 * private mappings in a small free list and hands them out again (zeroed).
 * It changes nothing observable for the program. */
#define _GNU_SOURCE
#include <sys/mman.h>
#include <sys/syscall.h>
#include <unistd.h>
#include <string.h>
#include <stddef.h>

#define CHUNK 16384
#define NCACHE 64
static void *cache[NCACHE];
static int ncache = 0;
static volatile int lock = 0;

static void lk(void) { while (__sync_lock_test_and_set(&lock, 1)) { } }
static void ul(void) { __sync_lock_release(&lock); }

void *mmap(void *addr, size_t len, int prot, int flags, int fd, off_t off)
{
    if (addr == NULL && len == CHUNK && prot == (PROT_READ | PROT_WRITE)
        && (flags & MAP_ANONYMOUS) && (flags & MAP_PRIVATE) && fd == -1) {
        void *p = NULL;
        lk();
        if (ncache > 0) p = cache[--ncache];
        ul();
        if (p) { memset(p, 0, CHUNK); return p; }
    }
    return (void *)syscall(SYS_mmap, addr, len, prot, flags, fd, off);
}

int munmap(void *addr, size_t len)
{
    if (len == CHUNK) {
        int ok = 0;
        lk();
        if (ncache < NCACHE) { cache[ncache++] = addr; ok = 1; }
        ul();
        if (ok) return 0;
    }
    return (int)syscall(SYS_munmap, addr, len);
}

void *mmap64(void *addr, size_t len, int prot, int flags, int fd, off_t off)
{
    return mmap(addr, len, prot, flags, fd, off);
}
