------------------------------ MODULE Numeral ------------------------------
(***************************************************************************)
(* Constant-level module shared by Input.tla (C18), Data.tla (C15) and     *)
(* NumText.tla (C16): byte-level text helpers, the numeral scanner (a      *)
(* character automaton), and the classification of a field for a variable  *)
(* type as accept / reject / either.                                       *)
(***************************************************************************)
EXTENDS Bytes


S2B(s) == s   \* texts are already byte sequences

RedoText == <<82,101,100,111,32,102,114,111,109,32,115,116,97,114,116,13,10>>  \* "Redo from start\r\n"
QMark == <<63, 32>>                                                           \* "? "

RECURSIVE SplitAcc(_, _, _)
SplitAcc(s, cur, acc) ==
    IF s = <<>> THEN Append(acc, cur)
    ELSE IF Head(s) = COMMA THEN SplitAcc(Tail(s), <<>>, Append(acc, cur))
    ELSE SplitAcc(Tail(s), Append(cur, Head(s)), acc)
Split(s) == SplitAcc(s, <<>>, <<>>)

RECURSIVE TrimL(_)
TrimL(s) == IF s # <<>> /\ Head(s) = BLANK THEN TrimL(Tail(s)) ELSE s
RECURSIVE TrimR(_)
TrimR(s) == IF s # <<>> /\ s[Len(s)] = BLANK THEN TrimR(SubSeq(s, 1, Len(s) - 1)) ELSE s
Trim(s) == TrimR(TrimL(s))

\* ---- numeral scanner -------------------------------------------------------
\* state record: st, neg, plus, ds (all mantissa digits), il (# integer digits),
\* point, mark ("" | "E" | "D"), eneg, es (exponent digits)
Scan0 == [st |-> "start", neg |-> FALSE, plus |-> FALSE, ds |-> <<>>, il |-> 0,
          point |-> FALSE, mark |-> "", eneg |-> FALSE, es |-> <<>>]

ScanStep(q, c) ==
    LET bad == [q EXCEPT !.st = "bad"] IN
    CASE q.st = "start" ->
           IF c = PLUS THEN [q EXCEPT !.st = "sign", !.plus = TRUE]
           ELSE IF c = MINUS THEN [q EXCEPT !.st = "sign", !.neg = TRUE]
           ELSE IF IsDigit(c) THEN [q EXCEPT !.st = "int", !.ds = <<c - 48>>, !.il = 1]
           ELSE IF c = POINT THEN [q EXCEPT !.st = "point0", !.point = TRUE]
           ELSE bad
      [] q.st = "sign" ->
           IF IsDigit(c) THEN [q EXCEPT !.st = "int", !.ds = <<c - 48>>, !.il = 1]
           ELSE IF c = POINT THEN [q EXCEPT !.st = "point0", !.point = TRUE]
           ELSE bad
      [] q.st = "int" ->
           IF IsDigit(c) THEN [q EXCEPT !.ds = Append(q.ds, c - 48), !.il = q.il + 1]
           ELSE IF c = POINT THEN [q EXCEPT !.st = "frac", !.point = TRUE]
           ELSE IF c \in {69, 101} THEN [q EXCEPT !.st = "emark", !.mark = "E"]
           ELSE IF c \in {68, 100} THEN [q EXCEPT !.st = "emark", !.mark = "D"]
           ELSE bad
      [] q.st = "point0" ->
           IF IsDigit(c) THEN [q EXCEPT !.st = "frac", !.ds = Append(q.ds, c - 48)]
           ELSE bad
      [] q.st = "frac" ->
           IF IsDigit(c) THEN [q EXCEPT !.ds = Append(q.ds, c - 48)]
           ELSE IF c \in {69, 101} THEN [q EXCEPT !.st = "emark", !.mark = "E"]
           ELSE IF c \in {68, 100} THEN [q EXCEPT !.st = "emark", !.mark = "D"]
           ELSE bad
      [] q.st = "emark" ->
           IF c = PLUS THEN [q EXCEPT !.st = "esign"]
           ELSE IF c = MINUS THEN [q EXCEPT !.st = "esign", !.eneg = TRUE]
           ELSE IF IsDigit(c) THEN [q EXCEPT !.st = "exp", !.es = <<c - 48>>]
           ELSE bad
      [] q.st = "esign" ->
           IF IsDigit(c) THEN [q EXCEPT !.st = "exp", !.es = <<c - 48>>]
           ELSE bad
      [] q.st = "exp" ->
           IF IsDigit(c) THEN [q EXCEPT !.es = Append(q.es, c - 48)]
           ELSE bad
      [] OTHER -> bad

RECURSIVE ScanFrom(_, _)
ScanFrom(q, s) == IF s = <<>> THEN q ELSE ScanFrom(ScanStep(q, Head(s)), Tail(s))
Scan(s) == ScanFrom(Scan0, s)

WellFormed(q) == q.st \in {"int", "frac", "exp"}

RECURSIVE StripLeadZ(_)
StripLeadZ(d) == IF d # <<>> /\ Head(d) = 0 THEN StripLeadZ(Tail(d)) ELSE d
RECURSIVE StripTrailZ(_)
StripTrailZ(d) == IF d # <<>> /\ d[Len(d)] = 0 THEN StripTrailZ(SubSeq(d, 1, Len(d) - 1)) ELSE d

RECURSIVE ToNat(_)          \* only for at most 9 digits
ToNat(d) == IF d = <<>> THEN 0 ELSE ToNat(SubSeq(d, 1, Len(d) - 1)) * 10 + d[Len(d)]

\* exponent value, saturated at +-9999 (more than 4 digits = astronomically large)
ExpVal(q) == LET e == StripLeadZ(q.es)
                 m == IF Len(e) > 4 THEN 9999 ELSE ToNat(e)
             IN IF q.eneg THEN 0 - m ELSE m

IsZero(q) == StripLeadZ(q.ds) = <<>>
\* decimal magnitude: value in [10^(K-1), 10^K)
Kexp(q) == q.il - (Len(q.ds) - Len(StripLeadZ(q.ds))) + ExpVal(q)
Lead2(q) == LET s == StripLeadZ(q.ds) IN
            IF Len(s) >= 2 THEN s[1] * 10 + s[2] ELSE s[1] * 10

\* accumulate a plain digit string as a NEGATIVE number to reach -2^31 without overflow
RECURSIVE NegAcc(_, _)
NegAcc(d, acc) ==
    IF d = <<>> THEN acc
    ELSE IF acc = 1 THEN 1                       \* 1 = overflow marker (acc is never positive otherwise)
    ELSE IF acc < -214748364 \/ (acc = -214748364 /\ Head(d) > 8) THEN 1
    ELSE NegAcc(Tail(d), acc * 10 - Head(d))

\* <<class, value>>; value is <<"I", n>>, <<"F", neg, mantissa, e10>>, <<"T", bytes>> or
\* <<"skip">> when the spec does not compute it (uniform shape: first component a string)
IntField(q, lo, hi) ==
    IF ~q.point /\ q.mark = "" THEN
        LET na == NegAcc(StripLeadZ(q.ds), 0)
            v  == IF na = 1 THEN <<FALSE, 0>>
                  ELSE IF q.neg THEN <<TRUE, na>>
                  ELSE IF na = -2147483647 - 1 THEN <<FALSE, 0>>
                  ELSE <<TRUE, 0 - na>>
        IN IF v[1] /\ v[2] >= lo /\ v[2] <= hi THEN <<"accept", <<"I", v[2]>>>> ELSE <<"reject", <<"skip">>>>
    ELSE IF ~IsZero(q) /\ Kexp(q) > 10 THEN <<"reject", <<"skip">>>>
    ELSE <<"either", <<"skip">>>>

\* float value: <<neg, mantissa, e10>> with mantissa*10^e10 the exact decimal value
\* (only when it has at most 9 significant digits), else "skip"
FloatVal(q) ==
    LET sig == StripTrailZ(StripLeadZ(q.ds))
        \* digits dropped at the right end shift the exponent up
        fracLen == Len(q.ds) - q.il
        dropped == Len(StripLeadZ(q.ds)) - Len(sig)
    IN IF IsZero(q) THEN <<"F", FALSE, 0, 0>>
       ELSE IF Len(sig) > 9 \/ Kexp(q) > 60 \/ Kexp(q) < -30 THEN <<"skip">>
       ELSE <<"F", q.neg, ToNat(sig), ExpVal(q) - fracLen + dropped>>

FloatField(q, kmax, lo2, hi2) ==
    \* kmax: K of the decade holding the largest finite value; lo2/hi2: leading two
    \* digits certainly inside / certainly outside in that decade
    LET cls == IF IsZero(q) THEN "accept"
               ELSE IF Kexp(q) > kmax THEN "reject"
               ELSE IF Kexp(q) < kmax THEN "accept"
               ELSE IF Lead2(q) >= hi2 THEN "reject"
               ELSE IF Lead2(q) <= lo2 THEN "accept"
               ELSE "either"
        cls2 == IF cls = "accept" /\ q.mark = "D" THEN "either" ELSE cls
    IN <<cls2, FloatVal(q)>>

\* classification of one (untrimmed) field for a variable type
Field(f, t) ==
    LET s == Trim(f)
        q == Scan(s)
    IN IF t = "T" THEN <<"accept", <<"T", s>>>>
       ELSE IF s = <<>> THEN <<"either", <<"skip">>>>
       ELSE IF ~WellFormed(q) THEN <<"reject", <<"skip">>>>
       ELSE CASE t = "I" -> IntField(q, -32768, 32767)
              [] t = "L" -> IntField(q, -2147483647 - 1, 2147483647)
              [] t = "S" -> FloatField(q, 39, 33, 35)
              [] t = "D" -> FloatField(q, 309, 16, 18)

\* classification of a response line for a vector of variable types
LineFields(line, types) ==
    LET fs == Split(line)
    IN IF Len(fs) # Len(types) THEN <<>>
       ELSE [i \in 1..Len(types) |-> Field(fs[i], types[i])]

LineClass(line, types) ==
    LET r == LineFields(line, types)
    IN IF Len(Split(line)) # Len(types) THEN "reject"
       ELSE IF \E i \in 1..Len(r) : r[i][1] = "reject" THEN "reject"
       ELSE IF \E i \in 1..Len(r) : r[i][1] = "either" THEN "either"
       ELSE "accept"

LineVals(line, types) == LET r == LineFields(line, types) IN [i \in 1..Len(r) |-> r[i][2]]

=============================================================================
