------------------------------ MODULE MC_Print ------------------------------
(* Bounded model of Print.tla over a pool of items.  The environment hands   *)
(* the machine one item at a time (Choose) and finally closes the statement; *)
(* every complete behaviour is printed as JSON for replay into the real      *)
(* compiler + VM.  Works exhaustively (all sequences of <= N items) and with *)
(* -simulate for longer sequences.                                           *)
EXTENDS Print, TLC, Json, IOUtils
CONSTANTS N, MinLen
Pool == JsonDeserialize(IOEnv.POOL)
P == Len(Pool)

VARIABLES hist, lastk, closed
vars == <<hist, lastk, closed, todo, buf, col, done>>

Items(h) == [i \in 1..Len(h) |-> Pool[h[i]]]

Init == /\ hist = <<>> /\ lastk = "init" /\ closed = FALSE
        /\ PInit(<<>>)

LastSep == hist # <<>> /\ IsSep(Pool[hist[Len(hist)]])

\* the source language requires a separator between two expressions
IsValue(it) == it.k \in {"num", "str"}
Choose(i) == /\ ~closed /\ todo = <<>> /\ Len(hist) < N
             /\ ~(IsValue(Pool[i]) /\ hist # <<>> /\ IsValue(Pool[hist[Len(hist)]]))
             /\ hist' = Append(hist, i) /\ todo' = <<Pool[i]>>
             /\ UNCHANGED <<lastk, closed, buf, col, done>>
Close == /\ ~closed /\ todo = <<>> /\ Len(hist) >= MinLen
         /\ closed' = TRUE /\ UNCHANGED <<hist, lastk, todo, buf, col, done>>

Next == \/ \E i \in 1..P : Choose(i)
        \/ Close
        \/ Num /\ lastk' = "num" /\ UNCHANGED <<hist, closed>>
        \/ Str /\ lastk' = "str" /\ UNCHANGED <<hist, closed>>
        \/ Semi /\ lastk' = "semi" /\ UNCHANGED <<hist, closed>>
        \/ Comma /\ lastk' = "comma" /\ UNCHANGED <<hist, closed>>
        \/ closed /\ EndLine(LastSep) /\ lastk' = "end" /\ UNCHANGED <<hist, closed>>

Spec == Init /\ [][Next]_vars

TypeOK == /\ col \in Nat /\ done \in BOOLEAN
          /\ \A i \in 1..Len(buf) : buf[i] \in 0..255
\* the running column is the length of what this statement wrote so far
ColInv == (~done \/ LastSep) => col = Len(buf)
\* after a comma the column is at a zone boundary and at least one blank was written
ZoneInv == lastk = "comma" => (col % Zone = 0 /\ col > 0 /\ buf[Len(buf)] = Blank)
\* the machine and the functional definition agree: the text is a function of the items
FunInv == done => buf = PrintText(Items(hist))
\* a line break ends the text iff the statement does not end in a separator
EndInv == done => ((~LastSep) <=> (Len(buf) >= 2 /\ buf[Len(buf)] = LF /\ buf[Len(buf) - 1] = CR))
\* the semantics is total: an unfinished statement can always take a step
Total == done \/ ENABLED Next

Report == done => PrintT(ToJson([hist |-> hist, text |-> buf]))
=============================================================================
