---------------------------- MODULE MC_Peephole ----------------------------
(***************************************************************************)
(* Every admissible window of at most K elements (Peephole.tla), printed   *)
(* with the type and the value the specification gives it.                 *)
(***************************************************************************)
EXTENDS Peephole, TLC, Json

CONSTANT K
VARIABLES w, st
vars == <<w, st>>
Init == w = <<>> /\ st = <<>>
Next == /\ Len(w) < K
        /\ \E ins \in Alphabet : LET r == Step(ins, st) IN r[1] /\ w' = Append(w, ins) /\ st' = r[2]
Spec == Init /\ [][Next]_vars

Complete == Len(st) = 1 /\ Len(w) >= 1
Report == Complete => PrintT(ToJson([w |-> w, t |-> st[1], v |-> Value(w)]))
\* the typing and the value semantics agree on the kind of the result
KindAgrees == Complete => LET v == Value(w) IN Bad(v) \/ v[1] = st[1]
=============================================================================
