#!/bin/sh
# usage: tools/mut.sh <ID> <file-relative-to-repo> <sed-expression> [tier]
# copies /repo to a scratch dir, applies the edit, runs the check against it, removes the copy
set -e
D=$(mktemp -d /tmp/qbv-mut-XXXXXX)
cp -r /repo/. "$D"/
sed -i "$3" "$D/$2"
(cd "$D" && git diff --stat | tail -1)
cd /verif
QBEE_REPO="$D" ./check "$1" --tier "${4:-quick}" | tail -5 || true
rm -rf "$D"
