------------------------------- MODULE MC_Layout -------------------------------
(* All sequences of K declarations over the declaration space; the layout        *)
(* theorem as invariants; every scenario is printed with its cell map so that the *)
(* harness can compare it with the cells the real VM touches.                     *)
EXTENDS Layout, TLC, Json
CONSTANTS K, Lows, MaxExt

LowsQuick == {0, -2}
LowsFull == {-2, 0, 1, 5}
Types == {"I", "L", "S", "D", "T"}
Decls == {[kind |-> "sc", t |-> t, rank |-> 0, lo |-> 0, ext |-> 0, nf |-> 0] : t \in Types} \cup
         {[kind |-> "rec", t |-> "R", rank |-> 0, lo |-> 0, ext |-> 0, nf |-> n] : n \in 2..3} \cup
         {[kind |-> "nrec", t |-> "R", rank |-> 0, lo |-> 0, ext |-> 0, nf |-> 2]} \cup
         {[kind |-> "arr", t |-> t, rank |-> r, lo |-> l, ext |-> e, nf |-> 0] : t \in {"I", "T", "D"}, r \in 1..3, l \in Lows, e \in 2..MaxExt} \cup
         {[kind |-> "arec", t |-> "R", rank |-> 1, lo |-> l, ext |-> 2, nf |-> 2] : l \in Lows} \cup
         {[kind |-> "dyn", t |-> "L", rank |-> 1, lo |-> 0, ext |-> 2, nf |-> 0]}

VARIABLES ds, closed
vars == <<ds, closed>>
Init == ds = <<>> /\ closed = FALSE
Add(d) == ~closed /\ Len(ds) < K /\ ds' = Append(ds, d) /\ UNCHANGED closed
Close == ~closed /\ Len(ds) >= 2 /\ closed' = TRUE /\ UNCHANGED ds
Next == Close \/ \E d \in Decls : Add(d)
Spec == Init /\ [][Next]_vars

Inj == closed => Injective(ds)
Rng == closed => InRange(ds)
Hdr == closed => NoHeaderClash(ds)
SizesPositive == \A i \in 1..Len(ds) : Size(ds[i]) >= 1
Report == closed => PrintT(ToJson([ds |-> ds, total |-> Total(ds),
                                   cells |-> [p \in Paths(ds) |-> CellOf(ds, p)]]))
=============================================================================
