--------------------------- MODULE Trace_QVMSafe ---------------------------
(* Run-time monitor for property C03 as a trace specification.  A case is    *)
(* the sequence of tick records of one concrete run of a compiler-produced   *)
(* module on the real VM.  Per tick the specification checks, with the       *)
(* type-level instruction semantics of QVMTypes.tla:                         *)
(*   fault-trap      no machine-level fault trap (only faulty code can cause) *)
(*   operand-type    the operands on the stack fit the instruction            *)
(*   stack-effect    depth after = depth before - pops + pushes               *)
(*   result-type     the pushed cells have the types the instruction yields   *)
(*   cell-type       a store keeps the type the cell held before              *)
(*   read-type       a typed read finds a cell of its type                    *)
(*   boundary-depth  at a statement boundary the depth is the depth at the    *)
(*                   routine's entry plus one per active GOSUB                *)
(* It keeps the frame stack <<entry depth, active GOSUBs>> itself.           *)
EXTENDS QVMTypes, TLC, Json, IOUtils
Cases == JsonDeserialize(IOEnv.CASES)

VARIABLES cid, l, fr, verdict
vars == <<cid, l, fr, verdict>>
C == Cases[cid]
T == C.ticks[l]

Init == cid \in 1..Len(Cases) /\ l = 1 /\ fr = <<>> /\ verdict = "run"

Rev(s) == [i \in 1..Len(s) |-> s[Len(s) - i + 1]]
Wild(t) == Len(t) >= 1 /\ SubSeq(t, 1, 1) = "*"

Clause ==
    LET s == Sig(T.ins, T.top, T.n)
        exp == Rev(s.push)
    IN IF T.trapseen \in MachineFaults THEN "fault-trap"
       ELSE IF T.bnd /\ fr # <<>> /\ T.ins.b # "frame" /\ T.d0 # fr[Len(fr)][1] + fr[Len(fr)][2] THEN "boundary-depth"
       ELSE IF T.trapseen # "" THEN ""             \* a source-level trap (fatal or handled): the instruction did not complete
       ELSE IF ~s.ok THEN "operand-type"
       ELSE IF T.d1 # T.d0 - s.pops + Len(s.push) /\ ~(Len(s.push) = 1 /\ s.push[1] = "*input") THEN "stack-effect"
       ELSE IF \E i \in 1..Len(exp) : ~Wild(exp[i]) /\ (i > Len(T.after) \/ T.after[i] # exp[i]) THEN "result-type"
       ELSE IF \E i \in 1..Len(T.st) : T.st[i][1] # "" /\ T.st[i][1] # T.st[i][2] THEN "cell-type"
       ELSE IF T.rdt # "" /\ T.rdt # TC(SubSeq(T.ins.t, 1, 1)) THEN "read-type"
       ELSE ""

\* bookkeeping of frames and GOSUBs
NextFr ==
    IF T.trapseen # "" THEN
         \* a trap handled by ON ERROR GOTO abandons the activations entered since the handler was
         \* armed: the recorded number of live frames says how many remain
         (IF T.handled /\ T.nf < Len(fr) THEN SubSeq(fr, 1, T.nf) ELSE fr)
    ELSE CASE T.ins.b = "frame" -> Append(fr, <<T.d1, 0>>)
           [] T.ins.b \in {"ret", "retv"} -> IF fr = <<>> THEN fr ELSE SubSeq(fr, 1, Len(fr) - 1)
           [] T.ins.b = "call" /\ ~T.callproc /\ fr # <<>> -> [fr EXCEPT ![Len(fr)][2] = @ + 1]
           [] T.ins.b = "ijmp" /\ fr # <<>> -> [fr EXCEPT ![Len(fr)][2] = @ - 1]
           \* RETURN <label> discards the return address with a `pop` and jumps
           [] T.ins.b = "pop" /\ T.retpop /\ fr # <<>> -> [fr EXCEPT ![Len(fr)][2] = @ - 1]
           [] OTHER -> fr

Step == /\ verdict = "run"
        /\ IF l > Len(C.ticks) THEN verdict' = "ok" /\ UNCHANGED <<cid, l, fr>>
           ELSE LET c == Clause IN
                IF c # "" THEN verdict' = c /\ UNCHANGED <<cid, l, fr>>
                ELSE l' = l + 1 /\ fr' = NextFr /\ UNCHANGED <<cid, verdict>>
Spec == Init /\ [][Step]_vars
Report == verdict # "run" => PrintT(ToJson([tid |-> C.tid, verdict |-> verdict, l |-> l]))
=============================================================================
