--------------------------- MODULE Trace_NumText ---------------------------
(* One case per number, recorded from compiled programs on the real VM:       *)
(*   t      type I L S D                                                       *)
(*   e      exact decimal expansion of the value (from the operand stack)      *)
(*   ptext  what PRINT wrote for it (without the trailing blank and line end)  *)
(*   stext  what STR$ returned                                                 *)
(*   ntext  what PRINT wrote for the negated value ("" if not applicable)      *)
(*   back   exact expansions of what VAL / READ / INPUT returned for the text  *)
(*          (each [how, ok, neg, ip, fp]; ok = FALSE: the text was refused)    *)
(* The verdict names the first clause of C16 that fails.                       *)
EXTENDS NumText, TLC, Json, IOUtils
Cases == JsonDeserialize(IOEnv.CASES)

VARIABLES cid, verdict
vars == <<cid, verdict>>
C == Cases[cid]

MaxSig(t) == IF t = "S" THEN 7 ELSE 17
IsInt(t) == t \in {"I", "L"}

BackOK(b, t) ==
    \* reading the text back reproduces the value: exactly for integers, to the shown
    \* precision for floats
    LET eb == [neg |-> b.neg, ip |-> b.ip, fp |-> b.fp]
        q  == Q(C.ptext)
    IN IF ~b.ok THEN FALSE
       ELSE IF IsInt(t) THEN eb.ip = C.e.ip /\ eb.fp = <<>> /\ (eb.neg = C.e.neg \/ IsZeroVal(eb))
       ELSE Near(eb, q) /\ (IsZeroVal(eb) \/ Mant(q) = <<>> \/ eb.neg = TextNeg(C.ptext))

Clause ==
    IF ~Shape(C.ptext) THEN "shape"
    ELSE IF ~SignOK(C.e, C.ptext) THEN "sign"
    ELSE IF IsInt(C.t) /\ ~PlainInt(C.ptext) THEN "plain-form"
    ELSE IF IsInt(C.t) /\ ~Exact(C.e, Q(C.ptext)) THEN "digits"
    ELSE IF ~IsInt(C.t) /\ SigDigits(Q(C.ptext)) > MaxSig(C.t) THEN "too-many-digits"
    ELSE IF ~IsInt(C.t) /\ ~Near(C.e, Q(C.ptext)) THEN "accuracy"
    ELSE IF C.stext # C.ptext THEN "str-vs-print"
    ELSE IF C.ntext # <<>> /\ (~Shape(C.ntext) \/ Body(C.ntext) # Body(C.ptext)) THEN "negation"
    ELSE IF \E i \in 1..Len(C.back) : ~BackOK(C.back[i], C.t)
         THEN "readback-" \o C.back[CHOOSE i \in 1..Len(C.back) : ~BackOK(C.back[i], C.t)].how
    ELSE "ok"

Init == cid \in 1..Len(Cases) /\ verdict = "run"
Step == verdict = "run" /\ verdict' = Clause /\ UNCHANGED cid
Spec == Init /\ [][Step]_vars
Report == verdict # "run" => PrintT(ToJson([tid |-> C.tid, verdict |-> verdict, l |-> 1]))
=============================================================================
