"""Driving the real qbee compiler and QVM: compile, load, run with a recording
peripherals object.  Imports the tree under $QBEE_REPO (default /repo)."""
import io
import os
import sys
import struct
import traceback
import contextlib

REPO = os.environ.get('QBEE_REPO', '/repo')
if REPO not in sys.path:
    sys.path.insert(0, REPO)

CONFIGS = [(0, False), (0, True), (1, False), (1, True), (2, False), (2, True)]


def _imports():
    global Compiler, QSyntaxError, CompileError, QModule, QvmMachine, HaltReason
    global CellType, TrapCode, qvm_codegen
    from qbee import qvm_codegen  # noqa: registers the code generator
    from qbee.compiler import Compiler
    from qbee.exceptions import SyntaxError as QSyntaxError, CompileError
    from qvm.module import QModule
    from qvm.machine import QvmMachine
    from qvm.cpu import HaltReason
    from qvm.cell import CellType
    from qvm.trap import TrapCode


_imports()


def where_of(exc):
    """'file.py:function' of the innermost repository frame of a traceback."""
    tb = traceback.extract_tb(exc.__traceback__)
    last = None
    for fr in tb:
        if fr.filename.startswith(REPO):
            last = fr
    if last is None and tb:
        last = tb[-1]
    if last is None:
        return '?'
    return '%s:%s' % (os.path.relpath(last.filename, REPO)
                      if last.filename.startswith(REPO) else os.path.basename(last.filename),
                      last.name)


def compile_text(text, O=0, g=False, want_bytes=True, want_listing=False):
    """Returns a dict describing the outcome:
       st = 'ok' (+ bytes, listing, code), 'syntax' (loc,msg), 'compile' (code,loc,msg),
            'crash' (type, where, stage)"""
    res = {'O': O, 'g': g}
    try:
        c = Compiler(codegen_name='qvm', optimization_level=O, debug_info=g)
        with contextlib.redirect_stdout(io.StringIO()):
            code = c.compile(text)
    except QSyntaxError as e:
        res.update(st='syntax', loc=e.loc_start, msg=str(e))
        return res
    except CompileError as e:
        res.update(st='compile', code=e.code.name, loc=e.loc_start, msg=str(e))
        return res
    except RecursionError as e:
        res.update(st='crash', type='RecursionError', where=where_of(e), stage='compile')
        return res
    except Exception as e:   # internal failure of the compiler
        res.update(st='crash', type=type(e).__name__, where=where_of(e), stage='compile',
                   msg=str(e)[:200])
        return res
    res['st'] = 'ok'
    res['code'] = code
    if want_bytes:
        try:
            res['bytes'] = bytes(code)
        except Exception as e:
            res.update(st='crash', type=type(e).__name__, where=where_of(e), stage='bytes',
                       msg=str(e)[:200])
            return res
    if want_listing:
        try:
            res['listing'] = str(code)
        except Exception as e:
            res.update(st='crash', type=type(e).__name__, where=where_of(e), stage='listing',
                       msg=str(e)[:200])
            return res
    return res


def split_sections(b):
    """section id -> payload bytes (the container format, decoded independently)."""
    out = {}
    i = 0
    while i < len(b):
        sid = b[i]
        n, = struct.unpack('>I', b[i + 1:i + 5])
        out[sid] = b[i + 5:i + 5 + n]
        i += 5 + n
    return out


class ScriptExhausted(Exception):
    pass


class Recorder:
    """Peripherals implementation recording every device call.  Scripted
    inputs: lines (terminal_input), keys (terminal_inkey), rnd (rng_get_next),
    timer (time_get_time).  Values of floats are kept as python floats."""

    def __init__(self, script=None):
        script = script or {}
        self.events = []
        self.lines = list(script.get('lines', []))
        self.keys = list(script.get('keys', []))
        self.rnd = list(script.get('rnd', []))
        self.timer = list(script.get('timer', []))
        self.exhausted = False

    def __getattr__(self, name):
        if name.startswith('_'):
            raise AttributeError(name)

        def call(*args):
            self.events.append((name,) + tuple(args))
            return None
        return call

    def terminal_input(self, same_line):
        if not self.lines:
            self.exhausted = True
            raise ScriptExhausted()
        l = self.lines.pop(0)
        self.events.append(('terminal_input', same_line, l))
        return l

    def terminal_inkey(self):
        k = self.keys.pop(0) if self.keys else ''
        self.events.append(('terminal_inkey', k))
        return k

    def rng_get_next(self):
        if not self.rnd:
            self.exhausted = True
            raise ScriptExhausted()
        v = self.rnd.pop(0)
        self.events.append(('rng_get_next', v))
        return v

    def rng_get_with_seed(self, seed):
        v = abs(seed / 100) % 1
        self.events.append(('rng_get_with_seed', seed, v))
        return v

    def time_get_time(self):
        if not self.timer:
            self.exhausted = True
            raise ScriptExhausted()
        v = self.timer.pop(0)
        self.events.append(('time_get_time', v))
        return v

    def memory_peek(self, offset):
        self.events.append(('memory_peek', offset))
        return offset % 251 % 256


def load_module(b):
    with contextlib.redirect_stdout(io.StringIO()):
        return QModule.parse(b)


def run_module(module, script=None, budget=200000, on_tick=None, observer=None, recorder=None):
    """Runs by ticking the CPU ourselves.  Returns (recorder, outcome) where
    outcome = {'how': 'halt'|'eoc'|'trap'|'budget'|'script'|'host-exception', ...}."""
    rec = recorder if recorder is not None else Recorder(script)
    sink = io.StringIO()
    with contextlib.redirect_stdout(sink):
        m = QvmMachine(module, impl=rec)
        cpu = m.cpu
        n = 0
        out = None
        try:
            while True:
                if cpu.halted:
                    break
                if cpu.pc >= len(module.code):
                    out = {'how': 'eoc'}
                    break
                if n >= budget:
                    out = {'how': 'budget'}
                    break
                if on_tick is not None:
                    on_tick(cpu, n)
                if observer is not None:
                    ins = cpu.get_instruction_at(cpu.pc)
                    observer.before(cpu, ins[0], ins[1], rec)
                    try:
                        cpu.tick()
                    finally:
                        observer.after(cpu, ins[0], ins[1], rec)
                else:
                    cpu.tick()
                n += 1
        except ScriptExhausted:
            out = {'how': 'script'}
        except Exception as e:
            out = {'how': 'host-exception', 'type': type(e).__name__, 'where': where_of(e),
                   'msg': str(e)[:200]}
    if out is None:
        r = cpu.halt_reason
        if r == HaltReason.INSTRUCTION:
            out = {'how': 'halt'}
        elif r == HaltReason.END_OF_CODE:
            out = {'how': 'eoc'}
        elif r == HaltReason.TRAP:
            out = {'how': 'trap', 'trap': cpu.last_trap.name, 'taddr': cpu.trapped_addr}
            line = None
            if module.debug_info is not None:
                try:
                    st = module.debug_info.find_stmt(cpu.trapped_addr, cpu)
                    if st is not None:
                        line = st.source_start_line
                except Exception:
                    line = None
            out['line'] = line
        else:
            out = {'how': 'other', 'reason': str(r)}
    out['ticks'] = n
    out['depth'] = len(cpu.stack)
    out['stdout'] = sink.getvalue()[:300]
    return rec, out, cpu


def texts(events):
    """Concatenation of everything handed to terminal_print."""
    return ''.join(e[1] for e in events if e[0] == 'terminal_print')


def compile_and_run(text, O=0, g=False, script=None, budget=200000, observer=None):
    c = compile_text(text, O, g)
    if c['st'] != 'ok':
        return c, None, None
    try:
        mod = load_module(c['bytes'])
    except BaseException as e:
        c = dict(c)
        c.update(st='crash', type=type(e).__name__, where=where_of(e), stage='load')
        return c, None, None
    rec, out, cpu = run_module(mod, script, budget, observer=observer)
    return c, rec, out
