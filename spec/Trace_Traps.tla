----------------------------- MODULE Trace_Traps -----------------------------
(* "The reported error category matches the cause" (property C07), decided    *)
(* per executed instruction from logged operand facts.  T.vals gives for the  *)
(* topmost cells <<"i", value>> (integers), <<"f", sign>> (floats), <<"s",    *)
(* length>> (strings), <<"r", 0>> (references).                               *)
(*   MustTrap(T)   causes that are visible in the operands: the instruction   *)
(*                 has to trap, with exactly the class given                  *)
(*   Allowed(T)    classes an instruction of that kind may report at all      *)
EXTENDS QVMTypes, TLC, Json, IOUtils
Cases == JsonDeserialize(IOEnv.CASES)
VARIABLES cid, l, verdict
vars == <<cid, l, verdict>>
C == Cases[cid]
T == C.ticks[l]
Init == cid \in 1..Len(Cases) /\ l = 1 /\ verdict = "run"

V(i) == IF Len(T.vals) >= i THEN T.vals[i] ELSE <<"-", 0>>
IsInt(v) == v[1] = "i"
Zero(v) == (v[1] = "i" /\ v[2] = 0) \/ (v[1] = "f" /\ v[2] = 0)
Neg(v) == (v[1] \in {"i", "f"}) /\ v[2] < 0

\* <<must trap?, class>>
Must ==
    LET b == T.ins.b IN
    CASE b \in {"div", "idiv", "mod"} /\ Zero(V(1)) -> <<TRUE, "DIVISION_BY_ZERO">>
      [] b = "exp" /\ Zero(V(2)) /\ Neg(V(1)) -> <<TRUE, "DIVISION_BY_ZERO">>
      [] b = "chr" /\ IsInt(V(1)) /\ (V(1)[2] < 0 \/ V(1)[2] > 255) -> <<TRUE, "INVALID_OPERAND_VALUE">>
      [] b = "asc" /\ V(1) = <<"s", 0>> -> <<TRUE, "INVALID_OPERAND_VALUE">>
      [] b \in {"strleft", "strright", "space"} /\ IsInt(V(1)) /\ V(1)[2] < 0 -> <<TRUE, "INVALID_OPERAND_VALUE">>
      [] b = "strmid" /\ IsInt(V(2)) /\ V(2)[2] < 1 -> <<TRUE, "INVALID_OPERAND_VALUE">>
      [] b = "strmid" /\ T.top[1] = "I" /\ IsInt(V(1)) /\ V(1)[2] < 0 -> <<TRUE, "INVALID_OPERAND_VALUE">>
      [] b = "strfind" /\ IsInt(V(3)) /\ V(3)[2] < 1 -> <<TRUE, "INVALID_OPERAND_VALUE">>
      [] b = "strrep" /\ IsInt(V(2)) /\ V(2)[2] < 0 -> <<TRUE, "INVALID_OPERAND_VALUE">>
      [] b = "strrep" /\ T.top[1] = "I" /\ IsInt(V(1)) /\ (V(1)[2] < 0 \/ V(1)[2] > 255) -> <<TRUE, "INVALID_OPERAND_VALUE">>
      [] b = "strrep" /\ V(1) = <<"s", 0>> -> <<TRUE, "INVALID_OPERAND_VALUE">>
      [] OTHER -> <<FALSE, "">>

Allowed ==
    LET b == T.ins.b IN
    CASE b \in {"add", "sub", "mul", "neg", "abs", "conv", "cint", "clng", "int", "sign", "sdbl"} -> {"INVALID_CELL_VALUE"}   \* numeric overflow (sdbl: VAL of a numeral beyond DOUBLE)
      [] b \in {"div", "idiv", "mod", "exp"} -> {"INVALID_CELL_VALUE", "DIVISION_BY_ZERO", "INVALID_OPERAND_VALUE"}
      [] b \in {"chr", "asc", "strleft", "strright", "space", "strmid", "strfind", "strrep"} -> {"INVALID_OPERAND_VALUE"}
      [] b \in {"arridx"} -> {"INDEX_OUT_OF_RANGE", "INVALID_DIMENSIONS"}
      [] b \in {"initarrl", "initarrg", "allocarr", "lbound", "ubound"} -> {"INDEX_OUT_OF_RANGE"}
      [] b = "io" -> {"DEVICE_ERROR", "DEVICE_NOT_AVAILABLE"}
      [] b \in {"ret", "retv"} -> {"NO_RESUME"}
      [] b = "errhand" -> {"ERRHAND_IN_HANDLER"} \cup {T.trap}      \* ON ERROR GOTO 0 inside a handler re-raises the last trap
      [] b \in {"errres", "errresn"} -> {"CANNOT_RESUME"}
      [] OTHER -> {}

Clause ==
    IF T.trap = "KEYBOARD_INTERRUPT" THEN ""
    ELSE IF Must[1] /\ T.trap = "" /\ ~T.handled THEN "missing-trap"
    ELSE IF Must[1] /\ T.trap # "" /\ T.trap # Must[2] THEN "trap-class"
    ELSE IF T.trap # "" /\ T.trap \in MachineFaults THEN ""          \* C03's business (fault-trap)
    ELSE IF T.trap # "" /\ T.trap \notin Allowed THEN "unexpected-trap"
    ELSE ""

Step == /\ verdict = "run"
        /\ IF l > Len(C.ticks) THEN verdict' = "ok" /\ UNCHANGED <<cid, l>>
           ELSE LET c == Clause IN
                IF c # "" THEN verdict' = c /\ UNCHANGED <<cid, l>>
                ELSE l' = l + 1 /\ UNCHANGED <<cid, verdict>>
Spec == Init /\ [][Step]_vars
Report == verdict # "run" => PrintT(ToJson([tid |-> C.tid, verdict |-> verdict, l |-> l]))
=============================================================================
