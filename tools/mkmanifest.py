#!/venv/bin/python
"""Regenerates /verif/MANIFEST.json from the table below (one source of truth)."""
import json, os
HERE = os.path.dirname(os.path.dirname(os.path.abspath(__file__)))
ALL = ['C%02d' % i for i in range(1, 21)]

CLAIMED = {
 'C06': dict(
    level='model_checking',
    text='Tokens.tla lists 64 statement forms (every statement of the grammar, the operators, the built-in functions) as token sequences '
         'with valid operands, a pool of 37 tokens (keywords, punctuation, operands of every type, fragments such as &H, 1E, an apostrophe) '
         'and the token-level mutations drop / duplicate / swap / replace / insert. MC_Tokens.tla lets TLC enumerate EVERY text within one '
         'mutation of every form (about 35,000 texts), deeper mutation chains by random walks, and mutation chains over the token sequences '
         'of whole generated programs. Each text is placed in a host (declarations in front, END and procedure bodies behind; at module '
         'level or inside a SUB) and compiled at rotating optimisation levels and debug settings (all six in the thorough tier); for an '
         'accepted text the binary module and the listing are produced as well. Trace_Total.tla gives the verdict: internal-failure (any '
         'exception other than a syntax or compile error, signature = exception type and raising function and stage), no-position, '
         'position-outside-text, no-answer (30 s).',
    note='Trusted: TLC, the token renderer, the host text. Totality is claimed for the explored texts: all single mutations of the listed forms, and samples of deeper ones.',
    technique='TLA+ token-mutation transition system; TLC-enumerated texts compiled; trace verdicts on outcome and position',
    design='6 C06'),
 'C05': dict(
    level='model_checking',
    text='Faults.tla holds the catalogue of 50 static rule violations (type mismatch in assignment, operator, IF/ELSEIF/WHILE/UNTIL '
         'condition, CASE clause, FOR bound, argument, subscript; undefined/duplicate label; duplicate DIM/CONST; argument count; array '
         'rank; undefined type, field, procedure; misplaced EXIT FOR/DO/SUB/FUNCTION, ELSE, ELSEIF, second ELSE, CASE, block terminators; '
         'unclosed FOR/IF/DO/WHILE/SELECT; illegal literals; non-constant CONST) with the error categories owed and the lines a diagnostic '
         'may point at, and DERIVES from a site\'s routine and block stack whether the construct is a violation there or legal (EXIT FOR in a '
         'FOR, ELSE in an IF block, CASE in SELECT, EXIT SUB in a SUB). MC_Faults.tla enumerates fault x site x noise before the fault '
         '(indented blank lines, comments, declarations) x level x debug setting and checks the catalogue is not vacuous. The harness '
         'injects each fault at the 10 sites of a fixed host (main/SUB/FUNCTION, nested FOR>IF>DO, SELECT arm, WHILE) and at sites of '
         'generated valid programs (any routine, any block nesting, computed from the unparser\'s line facts), compiles, and records '
         'outcome, category and reported line; Trace_Faults.tla gives the verdict: accepted / crashed / category / position / no-position / '
         'valid-program-rejected.',
    note='Trusted: TLC, the text builder, the generator (hosts are valid by construction and are checked to compile without a fault). For block-structure faults any line of the enclosing routine is an admissible position (which of two nested blocks of a kind is unclosed is not defined); all other faults must be reported on the injected line.',
    technique='TLA+ fault catalogue with legality derived from block stacks; TLC-enumerated fault x site x noise scenarios compiled; trace verdicts',
    design='6 C05'),
 'C14': dict(
    level='model_checking',
    text='Rewrite.tla defines a SURFACE of a program - which statement boundaries are written as colons, where trailing comments and '
         'empty/REM lines stand, where LET, the CALL form, the NEXT variable and `><` are used, and the letter-case, spacing and '
         'label-naming styles - the legal rewriting steps, and Neutral: no statement governed by a single-line IF, swallowed by a comment, '
         'no label inside a line, no bare call that reads as a label. TLC (MC_Rewrite.tla) checks Neutral over every surface reachable for '
         'all statement structures of length 3 (4 in the thorough tier) and confirms that the rule set with one condition dropped is '
         'refuted; for real programs (generated ones and three templates: labelled DATA groups with RESTORE and line numbers; DEFtype '
         'statements; records, SHARED/STATIC/CONST, ON ERROR, SELECT CASE, single-line IF ELSE, CALL forms, strings that look like code) it '
         'enumerates the extremes of the orbit (every site of up to MaxKinds kinds at once, each style) and random walks of single steps. '
         'Each surface is rendered to text, compiled and compared with the plain text\'s module: sections 1-4 byte-identical, else same '
         'device interactions and outcome. Trace_Rewrite.tla gives the verdict and re-checks each rendered surface against Legal and '
         'Neutral. Failing surfaces are shrunk to the smallest set of rewriting kinds and sites before they are reported.',
    note='Trusted: TLC, the renderer (lib/rewrite.py: case and spacing changes outside string literals and DATA payloads, label renaming by whole-word substitution), the unparser. A trailing REM without a colon and a colon after an argument-less bare call are NOT neutral in QBASIC and are excluded by the model (both were found as false alarms of an earlier rule set).',
    technique='TLA+ model of text surfaces and neutral rewriting steps; TLC-enumerated orbit rendered and compiled; trace verdicts per surface',
    design='6 C14'),
 'C13': dict(
    level='model_checking',
    text='Two TLA+ oracles decide the debugger\'s `print <expr>`. (1) QB.tla: generated programs (records, arrays, CONSTs, STATIC and SHARED '
         'variables, by-reference parameters, recursion) are compiled with -g and driven through qvm/dbg.py with a line breakpoint on every '
         'PRINT statement that stands alone on its line; at each stop every call-free item of that statement is put to the debugger, then '
         'the statement runs. The session\'s event trace with those items REPLACED by the debugger\'s answers is validated by Trace_QB.tla, '
         'so an answer that differs from the specification\'s value of the expression in the specification\'s state is rejected exactly like '
         'a wrong printed value. (2) Trace_DebugEval.tla states the agreement relation over all probes with exact values (also the '
         'non-dyadic ones outside the exact-float window of QBValues.tla, which half of the programs are augmented with): the answer '
         'equals the value the program then prints; "no value yet" is accepted; unknown names and far-out-of-range subscripts must be '
         'reported as evaluation errors; no question may change the machine-state digest; no host exception may escape, also after the '
         'program has finished; on a procedure header reached by `step` (CALL executed, FRAME not yet) callee-local names have no value and '
         'caller names still have the value printed just before the call. Four fixed programs cover every storage class by construction '
         '(parameters by reference incl. records and arrays, locals, STATIC scalars and arrays, SHARED, global and local CONST, nested '
         'records, arrays of records, multi-dimensional and dynamic arrays, fractional subscripts, DEFtype names, recursion depth).',
    note='Trusted: TLC, the event observer (typed values read from the operand stack), the parser of the debugger\'s textual answer (exact: Python repr round-trips; -0.0 and 0.0 are one value). Expressions containing calls are not asked (the debugger cannot call). "does not have a value yet" is accepted for any expression (the property speaks of assigned variables).',
    technique='trace validation against QB.tla with the debugger\'s answers substituted into the recorded events + TLA+ agreement relation over probes',
    design='6 C13'),
 'C12': dict(
    level='model_checking',
    text='Debugger.tla defines the debugger as a transition system over a recorded free run of a -g module (position in the run, set of '
         'line breakpoints) with, for every command (stepi, nexti, step, next, continue, break, delbr), the set of admissible stops. '
         'MC_Debugger.tla lets TLC enumerate every command history up to length K (and longer random ones) for every case - 7 fixed programs '
         '(loops, GOSUB, recursion, nested calls, SELECT/INPUT/READ, ON ERROR handler, run ending in a trap, END followed by code) and '
         'generated ones, at -O0/-O1/-O2 - checking in every reachable debugger state that step/next make progress into another statement, '
         'that next never stops inside a call it stepped over and that continue stops exactly at breakpoint addresses. Every history is '
         'replayed into qvm/dbg.py (Cmd.onecmd); after each command the instructions executed, a digest of the whole machine state and of '
         'the device calls, and the debugger\'s answer are recorded, and Trace_Debugger.tla validates each session against the relation: '
         'wrong stop, instructions executed by break/delbr, state or device history differing from the free run at the same instruction '
         'count, execution past the end of the free run, wrong break address or message, crash.',
    note='Trusted: TLC, the free-run recorder (statement of an address = innermost non-empty record of the debug map, which C11 validates), the line-to-address map computed by the harness from the records. `next` may or may not stop at an address that belongs to no statement (the property is silent).',
    technique='TLA+ debugger relation over a recorded run; TLC-enumerated command histories replayed into qvm/dbg.py; trace validation of the sessions',
    design='6 C12'),
 'C10': dict(
    level='model_checking',
    text='QB.tla carries the error-handler state (mode, handler, active, kind of the last error, resume point) and gives the meaning of ON '
         'ERROR GOTO / RESUME NEXT / GOTO 0, RESUME, RESUME NEXT and ERR. MC_Handlers.tla enumerates the scenarios: a module body of up to K '
         'failing-capable statements (division, subscript, ASC, overflow, MID$, an error with operands pending deep inside an expression, an '
         'error inside a FUNCTION, a statement whose FUNCTION already printed), which of them fail, and 8 handler regimes; after the body the '
         'program continues with GOSUB/RETURN, a SUB call, a FOR loop and the fall-off end. Each program is compiled with -g at every level '
         'and run; Trace_QB.tla validates all events (ERR values included) and the outcome, and Trace_QVMSafe.tla checks on the tick trace that '
         'after resuming the operand stack is back at the statement-boundary depth and no machine-level fault occurs.',
    note='Trusted: TLC, scenario instantiation, event observer, tick recorder. RESUME after an error inside a procedure is outside the property and not generated; ERR is compared with the code of the error class the cause demands (numbering taken from the tree).',
    technique='TLA+ source semantics with handler state; TLC-enumerated scenarios; trace validation at source and machine level',
    design='6 C10'),
 'C11': dict(
    level='model_checking',
    text='DebugMap.tla states the well-formedness of a debug map as predicates over the decoded instruction starts, the statement and '
         'routine records and the source facts of the generator (newline offsets, per line the statement kinds written on it and the header '
         'line of the enclosing block): ranges on instruction boundaries; every instruction of a body covered with a unique innermost '
         'statement; ranges nested or disjoint and nested like the source blocks; each procedure record covering exactly the code between '
         'its FRAME instruction and the next routine; recorded line = line of the recorded source offset; extract inside that line; record '
         'class compatible with the statement written on that line. TLC evaluates them on the real maps of -g builds of generated programs '
         'and of the statement shapes of Shapes.tla at every optimisation level. The dynamic half (each device interaction and run-time '
         'error reported against the line of the statement that caused it) is validated by Trace_QB.tla on the same builds.',
    note='Trusted: TLC, the unparser\'s per-line facts, the decoder used for instruction starts. The main program\'s prologue, FRAME and final RET are exempt from coverage.',
    technique='TLA+ predicates evaluated by TLC on real debug maps + trace validation of event/error lines',
    design='6 C11'),
 'C09': dict(
    level='model_checking',
    text='Module.tla is the decoding automaton of the binary container (sections, literal table, DATA parts and items incl. empty ones, '
         'global size) and of the instruction encodings, with opcode numbering and operand widths as a constant extracted from '
         'qvm/instrs.py. For each accepted program (generated, plus stress programs: many and non-ASCII literals, DATA layouts, many routines '
         'and labels, every opcode family) in all configurations TLC decodes the recorded module bytes item by item and requires five '
         'recorded streams to coincide with the decoding at every item (emitted by the compiler, recovered by QModule.parse, seen by the CPU '
         'decoder, printed by disassemble(), shown by the listing); then the structural invariants are evaluated on the decoded code: jump / '
         'call / ON ERROR operands are instruction starts (or the two reserved codes), variable operands lie inside the frame declared by the '
         'routine\'s FRAME instruction or inside the global area, literal indexes exist, a listing label denotes the instruction after it. Module.tla also computes, from the declarations the listing shows (.types, .globals, .routines), the storage each routine\'s parameters and locals and the global area need (records, nested records, static arrays with their headers, dynamic arrays as one reference cell) and requires every FRAME declaration and the global size to equal it.',
    note='Trusted: TLC, struct.pack re-encoding of decoded operand values in the harness, parsing of the disassembly and listing text. Frame declarations are checked against the operands used, not re-derived from the .routines listing.',
    technique='TLA+ decoding automaton run by TLC over real module bytes; event-by-event agreement of five recorded streams; structural invariants',
    design='6 C09'),
 'C04': dict(
    level='model_checking',
    text='Layout.tla states the frame layout (size of a declaration; the cell of every access path through arrays of rank 1-3 with arbitrary '
         'lower bounds, records, nested records, arrays of records, dynamic arrays) and the theorem that distinct access paths map to distinct '
         'cells inside the frame and outside array headers; MC_Layout.tla checks it for every sequence of declarations in the bound and prints '
         'each scenario with its cell map. Each scenario is turned into probe programs (module level; fresh locals of a recursive SUB; SHARED; '
         'STATIC; every location passed by reference and as an expression): sentinels are written everywhere, read back, overwritten one by one '
         'and re-read, unassigned locations are read. Trace_QB.tla (store disjoint by construction, by-reference = same location) validates every '
         'printed value in several configurations, and the cell each store touched on the real VM is compared with Layout.tla\'s cell map.',
    note='Trusted: TLC, the probe-program builder and unparser, the event observer and tick recorder.',
    technique='TLA+ layout theorem checked by TLC over declaration sequences + probe programs validated against the TLA+ store semantics and cell map',
    design='6 C04'),
 'C08': dict(
    level='model_checking',
    text='Shapes.tla enumerates every statement shape (nesting of IF/ELSEIF/ELSE, single-line IF, FOR, WHILE, DO, SELECT with empty and '
         'non-empty bodies) up to N nodes, each tree exactly once; every shape is instantiated so that each branch runs, at module level '
         'and inside a SUB, compiled with and without -g at each level: acceptance must agree, the literal/data/global sections must be '
         'byte-identical, and Trace_QB.tla validates events and outcome of all six builds against the source semantics, so a build that '
         'differs from its counterpart or from the specification is reported (debug-differs:*). Generated whole programs likewise.',
    note='Trusted: TLC, the shape instantiation and unparser, the event observer. Programs executing RESUME are not generated here.',
    technique='TLC enumeration of statement shapes + TLA+ source semantics; trace validation of -g and non -g builds',
    design='6 C08'),
 'C07': dict(
    level='model_checking',
    text='Three parts. (i) Totality sweep: ~100 failing-capable statement templates inside and outside the reference subset (arithmetic, '
         'string functions, arrays, DATA, PRINT USING, ^, non-finite floats, every device statement with a permissive and a strict '
         'peripheral implementation) under 8 handler regimes and all configurations, plus generated programs: every run must end halted '
         'with a reason, no exception may leave cpu.tick(). (ii) Trace_Traps.tla decides for every executed instruction, from logged '
         'operand facts, whether it had to trap and which classes it may report. (iii) Irq.tla models tick/interrupt (MC_Irq: the request '
         'is served by the very next step with the machine state unchanged); for EVERY instruction boundary of a set of programs a fresh '
         'machine is ticked to the boundary, the interrupt is requested as the signal handler does, and Trace_Irq.tla validates halt, '
         'trap class and unchanged stack / frames / globals / device history / pc.',
    note='Trusted: TLC, the tick recorder with an instance-level wrapper of cpu._trap, sha1 digests of the machine state. Float overflow is judged only through non-finite results.',
    technique='TLA+ interrupt model (TLC) + trace validation of every tick (trap class by cause) + exhaustive interrupt boundaries replayed on the real VM',
    design='6 C07'),
 'C03': dict(
    level='model_checking',
    text='QVMTypes.tla gives the type-level semantics of every QVM instruction and device operation (operand types required on the stack, '
         'cells popped and pushed with their types); Trace_QVMSafe.tla is a trace specification that validates every executed instruction '
         'of real runs of generated and hand-written programs (6 configurations) against it: operand types, stack effect, result types, '
         'stability of the type held by each cell, typed reads, absence of machine-level fault traps, and the operand-stack depth at '
         'every statement boundary (depth at routine entry + active GOSUBs, frames and GOSUBs tracked by the spec).',
    note='Concrete-run monitor only: paths not executed are not examined (the all-paths abstract exploration planned in DESIGN.md 3.5 is not built). Trusted: TLC, the tick recorder; a cell\'s declared type is approximated by the type of its first store.',
    technique='TLA+ type-level instruction semantics; trace validation of every tick of real runs',
    design='6 C03'),
 'C02': dict(
    level='model_checking',
    text='MC_ConstExpr.tla enumerates every constant expression a op b / op a over every operator, every ordered pair of operand types '
         'and the boundary values of each type and checks the laws of the value operators of QBValues.tla (totality, typing, commutativity, '
         'quotient/remainder, trichotomy); every combination is placed in PRINT, assignment-with-conversion, CONST and static DIM-bound '
         'contexts, compiled at -O0, -O1, -O2, -O3 and -O2 -g and run; Trace_QB.tla validates each level against the source semantics, so a '
         'level that rejects, crashes, or differs from -O0 or from the specified value/type/error is reported; generated whole programs '
         'are validated at all levels the same way. (ii) Peephole.tla defines the straight-line instruction windows an expression can '
         'compile to (admissible by the machine-level typing QVMTypes!Sig, one value left) and their VALUE by the value operators of '
         'QBValues.tla; MC_Peephole.tla enumerates every admissible window up to 3 elements (4 in the thorough tier; longer ones by random '
         'walks) over pushes of boundary constants of every type, variable reads, all conversions, all arithmetic/logic/comparison '
         'instructions; each window is spliced into a compiled host program and run as written and after QvmCode.optimize(); '
         'Trace_Peephole.tla compares both runs with the specified value or error, and the two runs with each other.',
    note='Trusted: TLC, generator/unparser, event observer. Float results outside the exact dyadic window are compared across levels only up to the first such value.',
    technique='TLC enumeration of constant expressions + TLA+ source semantics as oracle; trace validation of runs at every optimisation level',
    design='6 C02'),
 'C01': dict(
    level='model_checking',
    text='QBValues/QBExpr/QB.tla are a statement-level operational semantics of the generated QBASIC subset (typed values with exact '
         'dyadic floats, implicit conversions, every operator, built-in string/number functions, LET, PRINT, IF/ELSEIF, FOR, WHILE, DO, '
         'SELECT CASE, GOTO/GOSUB, SUB/FUNCTION with by-reference and by-value arguments, recursion, arrays, records, CONST, SHARED, '
         'device statements, run-time errors with their statement). A typed generator builds ASTs and unparses them; each program is '
         'compiled in the six configurations and run; Trace_QB.tla executes the AST and validates every recorded device event (typed '
         'values taken from the operand stack, separators, source line in debug builds) and the outcome of every configuration.',
    note='Trusted: TLC, the generator/unparser (AST -> text), the event observer. Floats outside the exact dyadic window end the comparison of that run (verdict oom, counted in evidence). INPUT/READ/ON ERROR are covered by C18/C15/C10, not by this generator yet.',
    technique='TLA+ operational semantics interpreted by TLC over generated ASTs; trace validation of real runs in 6 configurations',
    design='6 C01'),
 'C20': dict(
    level='model_checking',
    text='Session.tla states that the result of a compile or run request is a function of the request alone (memo over all processes '
         'and environments); MC_Session enumerates every history of requests up to the length bound (plus longer simulated ones) as '
         'drivers; each history runs in one fresh child process under a rotating environment (hash seed, working directory, shifted '
         'clock), every request also alone under three hash seeds; the ordered record of <request, result digest> events is one trace '
         'that Trace_Session.tla validates against Session.tla.',
    note='Trusted: TLC, sha1 digests of sections 1-4 + listing (compile) and of events + outcome + tick count (run); the specification is a history enumerator plus a function-of-request invariant, the bug-finding power is the enumeration.',
    technique='TLA+ session model, TLC history enumeration as drivers, trace validation of recorded results',
    design='6 C20'),
 'C16': dict(
    level='model_checking',
    text='NumText.tla states every clause of the property on byte texts and exact decimal digit sequences (shape and sign position, '
         'plain integer form, at most 7/17 significant digits, the numeral within half a unit of its last shown digit of the exact value, '
         'PRINT = STR$, same digits for x and -x, read-back through VAL/INPUT/READ); values travel through compiled programs on the real '
         'VM and Trace_NumText.tla decides each recorded case; MC_NumText.tla checks the spec\'s own integer text and scanner operators '
         'against each other on every INTEGER. Thorough tier covers all 65536 INTEGERs; quick every 8th plus boundaries.',
    note='Trusted: TLC, the tick observer, decimal.Decimal(float) for the exact expansion of a binary float (data the spec cannot compute: TLC has 32-bit integers and no reals).',
    technique='TLA+ predicates on digit sequences evaluated by TLC per recorded case (trace validation), exhaustive over INTEGER',
    design='6 C16'),
 'C19': dict(
    level='model_checking',
    text='Using.tla holds the format scanner and the rendering of a value in a field on exact decimal digit sequences (rounding with '
         'ties either way, carries, grouping, sign positions, % overflow mark) as sets of admissible texts; TLC enumerates every format '
         'string up to the length bound with scanner invariants (and longer ones by simulation); each unambiguous format is run with '
         'boundary value tuples through compiler+VM, values are read from the operand stack as exact expansions, and Trace_Using.tla '
         'matches the terminal text field by field.',
    note='Trusted: TLC, the tick observer, decimal.Decimal(float) for the exact expansion of a binary float; formats outside the field grammar are [amb].',
    technique='TLA+ scanner + digit-sequence rendering, TLC exhaustive format enumeration, trace validation of real runs',
    design='6 C19'),
 'C15': dict(
    level='model_checking',
    text='Data.tla holds the DATA tokenizer as a character automaton and the READ/RESTORE cursor machine with conversion rules; TLC '
         'enumerates every DATA text up to the length bound (item lists compared with the implementation for all of them) and, per '
         'DATA/label layout, every READ/RESTORE sequence up to the bound as a driver; each driver is compiled (3 placements of the '
         'executed code relative to the DATA lines, 6 configurations) and run, every READ is observed on the operand stack, and the '
         'recorded trace is validated by Trace_Data.tla clause by clause.',
    note='Trusted: TLC, the tick observer reading the cell pushed by `io data,read`, numpy/python repr to identify a float; [amb] DATA texts only need not crash.',
    technique='TLA+ tokenizer automaton + cursor machine, TLC exhaustive enumeration, trace validation of real runs',
    design='6 C15'),
 'C18': dict(
    level='model_checking',
    text='Input.tla holds the field scanner (character automaton), the accept/reject/either classification per variable type and the '
         'prompt/redo protocol machine; TLC explores all response histories over per-scenario line pools with the model invariants '
         '(nothing assigned before acceptance, accepted only if well-formed and in range, one prompt per round) and prints each '
         'behaviour; behaviours are replayed as INPUT statements with scalar/element/field targets followed by GOSUB/RETURN, a SUB '
         'call and a fall-off end; every recorded dialogue (texts, lines, values pushed, stack effect) is validated by Trace_Input.tla.',
    note='Trusted: TLC, the tick observer that reads the operand stack around `io terminal,input`, numpy/python repr to identify a float by its shortest decimal.',
    technique='TLA+ protocol machine + scanner automaton, TLC exhaustive histories, behaviour replay, trace validation',
    design='6 C18'),
 'C17': dict(
    level='model_checking',
    text='Print.tla is the PRINT protocol machine; TLC checks its invariants over all item sequences up to the bound and '
         'prints every behaviour; each behaviour is replayed as real PRINT statements (literal / variable in a SUB / computed '
         'expression in a loop) through compiler+VM in the six configurations, and recorded <items, text> pairs of random long '
         'statements are validated by Trace_Print.tla step by step.',
    note='Trusted: TLC, the harness that renders behaviours as source text and records terminal_print arguments; float number text is data (C16).',
    technique='TLA+ protocol machine, TLC exhaustive enumeration + behaviour replay + trace validation',
    design='6 C17'),
}

PENDING_REASON = 'check not yet built in this round (specification planned in DESIGN.md section 6); not claimed until its check is clean on the unchanged tree'


def main():
    checks = []
    for pid in ALL:
        if pid not in CLAIMED:
            continue
        c = CLAIMED[pid]
        checks.append({
            'property_id': pid,
            'quick_cmd': './check %s --tier quick' % pid,
            'thorough_cmd': './check %s --tier thorough' % pid,
            'evidence_file': 'evidence/%s.json' % pid,
            'replay_cmd_template': './check %s --replay {path}' % pid,
            'engine': 'tlc',
            'level_claimed': {'category': c['level'], 'text': c['text'], 'design_ref': 'DESIGN.md section ' + c['design']},
            'level_note': c['note'],
            'technique': c['technique'],
        })
    man = {
        'version': 1,
        'setup_cmd': './setup.sh',
        'hooks': {
            'guard': 'QBEE_VERIF',
            'enable': 'no source hooks: checks import /repo (or $QBEE_REPO) as it is and observe through public objects',
            'baseline_off_cmd': 'cd /repo && /venv/bin/python -m pytest -ra -q -p no:cacheprovider --timeout=900 --continue-on-collection-errors',
            'source_commits': [],
            'add_only': True,
        },
        'engines': [
            {'name': 'tlc', 'path': 'spec/', 'serves_properties': sorted(CLAIMED),
             'kind_free_text': 'TLA+ specifications checked with TLC 1.8 (exhaustive, -simulate, trace validation); Python harness in lib/ and checks/ binds them to the code'},
        ],
        'checks': checks,
        'not_applicable': [{'property_id': p, 'reason': PENDING_REASON} for p in ALL if p not in CLAIMED],
        'notes': 'See DESIGN.md. known_findings.json lists genuine defects (open / fixed).',
    }
    with open(os.path.join(HERE, 'MANIFEST.json'), 'w') as f:
        json.dump(man, f, indent=1)
        f.write('\n')


if __name__ == '__main__':
    main()
