---------------------------- MODULE MC_ConstExpr ----------------------------
(* Exhaustive enumeration of constant expressions  a op b  and  op a  over    *)
(* every operator, every ordered pair of operand types and the boundary        *)
(* values of each type (property C02), with the model-level laws the value     *)
(* operators of QBValues.tla must satisfy.  Every combination is printed; the   *)
(* harness places it in PRINT / CONST / assignment / DIM contexts, compiles at *)
(* all optimisation levels and lets Trace_QB.tla validate the runs.            *)
EXTENDS QBValues, TLC, Json, IOUtils
Bnd == JsonDeserialize(IOEnv.BND)       \* sequence of boundary values <<kind, a, b>>
Ops == <<"add", "sub", "mul", "div", "pow", "idiv", "mod", "eq", "ne", "lt", "gt", "le", "ge",
         "and", "or", "xor", "eqv", "imp">>
UOps == <<"neg", "not">>

VARIABLES i, j, o, done
vars == <<i, j, o, done>>
Init == i \in 1..Len(Bnd) /\ j \in 0..Len(Bnd) /\ o \in 1..Len(Ops) /\ done = FALSE
Next == ~done /\ done' = TRUE /\ UNCHANGED <<i, j, o>>
Spec == Init /\ [][Next]_vars

A == Bnd[i]
B == Bnd[j]
Binary == j > 0
Op == Ops[o]
\* [amb] combinations the property does not settle: LONG mixed with SINGLE, integer-only
\* operators on floats (operands are rounded first: specified, but kept to integral types here)
Strs == A[1] = "T" \/ (Binary /\ B[1] = "T")
Applicable ==
    IF ~Binary THEN o <= Len(UOps) /\ A[1] # "T"
    ELSE IF Strs THEN A[1] = "T" /\ B[1] = "T" /\ (Op = "add" \/ IsCmp(Op))
    ELSE ~(({A[1], B[1]} = {"L", "S"}))
Result == IF Binary THEN BinOp(Op, A, B) ELSE UnOp(UOps[o], A)

ValueShape(v) == /\ v[1] \in {"I", "L", "S", "D", "T", "ERR", "OOM"}
                 /\ (v[1] = "I" => v[2] >= MinI /\ v[2] <= MaxI)
                 /\ (v[1] \in {"S", "D"} => (v[2] = 0 /\ v[3] = 0) \/ v[2] % 2 = 1)
\* the operators are total and well typed
TypeOK == Applicable => ValueShape(Result)
\* algebraic sanity laws
Commutes == (Applicable /\ Binary /\ Op \in {"add", "mul", "and", "or", "xor", "eqv", "eq", "ne"} /\ ~Strs)
               => BinOp(Op, A, B) = BinOp(Op, B, A) \/ Bad(BinOp(Op, A, B))
DivMod == (Applicable /\ Binary /\ Op = "idiv" /\ IsIntK(A[1]) /\ IsIntK(B[1]) /\ ~Bad(Result))
               => LET q == Result r == BinOp("mod", A, B)
                  IN ~Bad(r) /\ q[2] * B[2] + r[2] = A[2] /\ (r[2] = 0 \/ Sgn(r[2]) = Sgn(A[2]))
                     /\ (B[2] # MinL /\ r[2] # MinL => Abs(r[2]) < Abs(B[2]))
Trichotomy == (Applicable /\ Binary /\ Op = "lt" /\ ~Bad(Result))
               => LET lt == Result gt == BinOp("gt", A, B) eq == BinOp("eq", A, B)
                  IN (IF lt[2] # 0 THEN 1 ELSE 0) + (IF gt[2] # 0 THEN 1 ELSE 0) + (IF eq[2] # 0 THEN 1 ELSE 0) = 1

Report == (done /\ Applicable) => PrintT(ToJson([i |-> i, j |-> j, op |-> IF Binary THEN Op ELSE UOps[o], res |-> Result]))
=============================================================================
