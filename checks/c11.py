"""C11  The debug map attributes every instruction to its source statement.

DebugMap.tla states the well-formedness of a debug map (ranges on instruction boundaries;
every instruction of a body covered, with a unique innermost statement; ranges nested or
disjoint and nested like the source blocks; each procedure record covering exactly the
procedure's code; recorded line = line of the recorded source offset; extract inside that
line; record class compatible with the statement the generator wrote on that line).  For
-g modules of generated programs and of the statement shapes of Shapes.tla at every
optimisation level TLC evaluates these predicates on the real map.  The dynamic half (every
device interaction and run-time error reported against the line of the statement that caused
it) is validated by Trace_QB.tla on the same -g builds.
"""
import json
import os
import random

from lib import tlc, par, gen
from lib.common import Machinery
from checks import c01, c08

LEVEL = 'model_checking'
TRACE_CFG = '''SPECIFICATION Spec
INVARIANT Report
CHECK_DEADLOCK FALSE
'''
SHAPES_CFG = c08.SHAPES_CFG


def map_case(text, lineinfo, O):
    from lib import qb
    import io as _io
    import contextlib
    c = qb.compile_text(text, O, True)
    if c['st'] != 'ok':
        return {'fail': c['st'], 'detail': {k: v for k, v in c.items() if k not in ('code', 'bytes')}}
    mod = qb.load_module(c['bytes'])
    from qvm.machine import QvmMachine
    with contextlib.redirect_stdout(_io.StringIO()):
        m = QvmMachine(mod, impl=qb.Recorder({}))
    starts, ops = [], []
    a = 0
    while a < len(mod.code):
        ins, operands, size = m.cpu.get_instruction_at(a)
        starts.append(a)
        ops.append((ins.op if ins else '?', operands))
        a += size
    frames = [starts[i] for i, (op, _) in enumerate(ops) if op == 'frame']
    main_frame = frames[0] if frames else 0
    proc_frames = frames[1:]
    di = mod.debug_info
    stmts = [{'s': st.start_offset, 'e': st.end_offset, 'ss': st.source_start_offset if st.source_start_offset is not None else -1,
              'se': st.source_end_offset if st.source_end_offset is not None else -1, 'ln': st.source_start_line or 0,
              'cls': type(st.node).__name__} for st in di.stmts]
    recs = sorted(di.routines.values(), key=lambda r: r.start_offset)
    routines = []
    for k, r in enumerate(recs):
        fr = proc_frames[k] if k < len(proc_frames) else -1
        last = proc_frames[k + 1] if k + 1 < len(proc_frames) else len(mod.code)
        routines.append({'s': r.start_offset, 'e': r.end_offset, 'frame': fr, 'last': last})
    if len(recs) != len(proc_frames):
        routines.append({'s': -1, 'e': -1, 'frame': -2, 'last': -2})
    # exempt: module prologue, the main program's FRAME and its final RET
    end_main = proc_frames[0] if proc_frames else len(mod.code)
    exempt = [s for s in starts if s <= main_frame]
    main_instrs = [i for i, s in enumerate(starts) if main_frame < s < end_main]
    if main_instrs and ops[main_instrs[-1]][0] == 'ret':
        exempt.append(starts[main_instrs[-1]])
    nl = [i for i, ch in enumerate(text) if ch == '\n']
    return {'case': {'starts': starts, 'codelen': len(mod.code), 'stmts': stmts, 'routines': routines, 'exempt': exempt,
                     'nl': nl, 'srclen': len(text), 'lines': lineinfo}}


def nesting_pair(c):
    """names the first offending pair of record classes (for the signature only; the verdict is TLC's)"""
    lines = c['lines']

    def anc(a, l):
        while l:
            if a == l:
                return True
            l = lines[l - 1]['parent'] if l <= len(lines) else 0
        return False
    ne = [s for s in c['stmts'] if s['e'] > s['s'] and not s['cls'].endswith('CaseClause')]
    for i in ne:
        for j in ne:
            if i is not j and i['s'] <= j['s'] and j['e'] <= i['e'] and (j['e'] - j['s']) < (i['e'] - i['s']) and not anc(i['ln'], j['ln']):
                return '%s>%s' % (i['cls'], j['cls'])
    return '?'


def declbody_program(v):
    """loops whose body holds only declarations (no code), or code the optimiser deletes, placed after statements that
    leave an empty record or an empty-block marker at the loop's start address; the loop's condition fails at run time,
    so the reported line shows which statement the condition code is attributed to"""
    def num(x):
        return {'k': 'num', 't': 'I', 'v': x}

    def var(nm, t='I'):
        return {'k': 'lv', 'n': nm, 'ix': [], 'fl': [], 't': t}

    def pr(x):
        return {'k': 'print', 'items': [{'k': 'e', 'e': num(x)}]}
    bad = {'k': 'bin', 'o': 'eq', 'l': {'k': 'par', 'a': {'k': 'bin', 'o': 'idiv', 'l': num(10), 'r': var('z%')}}, 'r': num(3)}
    decl = {'k': 'nop', 'text': 'DIM q%d AS INTEGER' % v}
    cst = {'k': 'nop', 'text': 'CONST cc%d = 1' % v}
    selfassign = {'k': 'let', 'lv': var('g$', 'T'), 'e': var('g$', 'T')}
    ifblk = {'k': 'if', 'arms': [{'c': {'k': 'bin', 'o': 'eq', 'l': var('z%'), 'r': num(0)}, 'body': [pr(1)]}], 'els': [], 'hasels': False}
    main = [{'k': 'let', 'lv': var('z%'), 'e': num(0)}, {'k': 'let', 'lv': var('g$', 'T'), 'e': {'k': 'str', 'b': [97]}}]
    if v == 0:      # DO / CONST / LOOP UNTIL c
        main += [{'k': 'do', 'pre': '', 'prec': num(0), 'post': 'until', 'postc': bad, 'body': [cst]}]
    elif v == 1:    # IF..END IF, then WHILE c / DIM / WEND
        main += [ifblk, {'k': 'while', 'c': bad, 'body': [decl]}]
    elif v == 2:    # CONST, then WHILE c / DIM / WEND
        main += [cst, {'k': 'while', 'c': bad, 'body': [decl]}]
    elif v == 3:    # DO WHILE c / CONST / LOOP after an IF block
        main += [ifblk, {'k': 'do', 'pre': 'while', 'prec': bad, 'post': '', 'postc': num(0), 'body': [cst]}]
    elif v == 4:    # a body the optimiser deletes
        main += [selfassign, {'k': 'while', 'c': bad, 'body': [selfassign]}]
    elif v == 6:    # a loop whose closing line has code, directly followed by a statement without code
        main += [{'k': 'do', 'pre': '', 'prec': num(0), 'post': 'until', 'postc': bad, 'body': [pr(3)]}, cst]
    elif v == 7:
        main += [{'k': 'for', 'v': var('fq%'), 'from': num(1), 'to': num(2), 'step': num(1), 'hasstep': False, 'nextvar': False, 'body': [pr(4)]}, decl,
                 {'k': 'while', 'c': {'k': 'bin', 'o': 'lt', 'l': var('z%'), 'r': num(1)}, 'body': [{'k': 'let', 'lv': var('z%'), 'e': num(1)}]}, cst]
    else:           # the same inside a SELECT arm, after END SELECT
        sel = {'k': 'select', 'e': var('z%'), 'cases': [{'cl': [{'k': 'v', 'v': num(0)}], 'body': [pr(2)]}], 'els': []}
        main += [sel, {'k': 'do', 'pre': '', 'prec': num(0), 'post': 'until', 'postc': bad, 'body': [decl]}]
    main.append(pr(9))
    return {'types': [], 'consts': [], 'shared': [], 'main': gen.flatten(main), 'procs': []}


def elseif_program(n):
    """an IF block with n ELSEIF arms (each condition differs), with and without ELSE, nested once"""
    def num(v):
        return {'k': 'num', 't': 'I', 'v': v}

    def var(nm):
        return {'k': 'lv', 'n': nm, 'ix': [], 'fl': [], 't': 'I'}

    def pr(v):
        return {'k': 'print', 'items': [{'k': 'e', 'e': num(v)}]}

    def chain(k, base, inner):
        arms = [{'c': {'k': 'bin', 'o': 'eq', 'l': var('x%'), 'r': num(base)}, 'body': [pr(base)]}]
        for a in range(k):
            arms.append({'c': {'k': 'bin', 'o': 'eq', 'l': var('x%'), 'r': num(base + a + 1)}, 'body': [pr(base + a + 1)] + (inner if a == 0 else [])})
        return {'k': 'if', 'arms': arms, 'els': [pr(99)] if k % 2 else [], 'hasels': bool(k % 2)}
    main = [{'k': 'for', 'v': var('x%'), 'from': num(0), 'to': num(n + 2), 'step': num(1), 'hasstep': False, 'nextvar': False,
             'body': [chain(n, 1, [chain(2, 20, [])] if n > 1 else [])]}]
    return {'types': [], 'consts': [], 'shared': [], 'main': gen.flatten(main), 'procs': []}


def _job(job):
    kind, payload, O = job
    if kind == 'gen':
        prog, text, ast, li = gen.generate_info(payload, size=10, depth=3, wide=True)
    elif kind == 'declbody':
        prog = declbody_program(payload)
        u = gen.Unparser(prog)
        text = u.text()
        ast = gen.strip_for_tlc(prog)
        li = u.lineinfo
    elif kind == 'elseif':
        prog = elseif_program(payload)
        u = gen.Unparser(prog)
        text = u.text()
        ast = gen.strip_for_tlc(prog)
        li = u.lineinfo
    else:
        prog = c08.program_of(payload['shapes'], payload['sub'])
        u = gen.Unparser(prog)
        text = u.text()
        ast = gen.strip_for_tlc(prog)
        li = u.lineinfo
    r = map_case(text, li, O)
    r['text'] = text
    r['O'] = O
    r['ast'] = ast
    if 'case' in r:
        from lib import rec
        rr = rec.run_recorded(text, O, True)
        if rr['st'] == 'ok':
            for e in rr['events']:
                e.pop('text', None)
            r['obs'] = [{'cfg': 'O%dg' % O, 'events': rr['events'], 'outcome': rr['outcome']}]
    return r


def validate(work, cases, name='maps.json'):
    out = []
    SH = 40
    for si in range(0, len(cases), SH):
        shard = cases[si:si + SH]
        path = os.path.join(work, '%d-%s' % (si, name))
        tlc.write_json(path, shard)
        r = tlc.run_tlc('DebugMap', TRACE_CFG, env={'CASES': path}, workers=1, timeout=1700, heap='3g')
        if r.error:
            raise Machinery('DebugMap: ' + r.error[:1500])
        by = {x['tid']: x for x in r.printed}
        if len(by) != len(shard):
            raise Machinery('DebugMap: %d verdicts for %d maps' % (len(by), len(shard)))
        out += [by[c['tid']] for c in shard]
        os.unlink(path)
    return out


def run(ctx):
    work = tlc.scratch_dir('qbv-c11-')
    try:
        _run(ctx, work)
    finally:
        import shutil
        shutil.rmtree(work, ignore_errors=True)


def _run(ctx, work):
    rng = random.Random(ctx.seed)
    rs = tlc.run_tlc('Shapes', SHAPES_CFG % 3, workers=8, timeout=1700, heap='8g')
    if rs.error:
        raise Machinery('Shapes: ' + rs.error[:1200])
    shapes = [b['tree'] for b in rs.printed]
    rng.shuffle(shapes)
    shapes = shapes[:ctx.pick(360, 1794)]
    jobs = []
    for i in range(0, len(shapes), 12):
        for O in ((0, 1, 2) if not ctx.quick() else ((i // 12) % 3,)):
            jobs.append(('shape', {'shapes': shapes[i:i + 12], 'sub': (i // 12) % 2 == 0}, O))
    for i in range(ctx.pick(40, 1500)):
        for O in ((0, 1, 2) if not ctx.quick() else (i % 3,)):
            jobs.append(('gen', ctx.seed * 100000 + 60000 + i, O))
    for n in (1, 2, 3, 4):
        for O in (0, 1, 2):
            jobs.append(('elseif', n, O))
    for v in range(8):
        for O in (0, 1, 2):
            jobs.append(('declbody', v, O))
    res = par.pmap(_job, jobs, chunk=2)
    cases, metas, qcases = [], [], []
    for r in res:
        if 'fail' in r:
            d = r['detail']
            trig = '%s@%s' % (d.get('type'), d.get('where')) if r['fail'] == 'crash' else '%s:%s' % (r['fail'], str(d.get('msg', ''))[:40])
            ctx.violation('rejected-or-crashed', trig, {'program': r['text'], 'level': r['O'], 'detail': d})
            continue
        c = r['case']
        c['tid'] = len(cases)
        cases.append(c)
        metas.append(r)
        if 'obs' in r:
            qcases.append({'tid': len(qcases), 'seed': 0, 'ast': r['ast'], 'obs': r['obs'], 'text': r['text']})
    verdicts = validate(work, cases)
    nst = 0
    for c, m, v in zip(cases, metas, verdicts):
        nst += len(c['stmts'])
        if v['verdict'] != 'ok':
            trig = 'O%d' % m['O']
            if v['verdict'] == 'nesting-unlike-source':
                trig = nesting_pair(c)
            ctx.violation('map:' + v['verdict'], trig, {'program': m['text'], 'level': m['O'], 'verdict': v['verdict'],
                                                               'stmts': c['stmts'][:400], 'routines': c['routines']})
    # dynamic attribution: device events and run-time errors against the statement's line
    qv = c01.validate(work, qcases)
    dyn = {}
    for c, v in zip(qcases, qv):
        vd = v['verd'][0]
        dyn[vd] = dyn.get(vd, 0) + 1
        if vd in ('line', 'error-line'):
            o = c['obs'][0]
            pos = v['pos'][0]
            ev = o['events'][pos - 1] if 0 < pos <= len(o['events']) else None
            ln = (ev or {}).get('ln') or o['outcome'].get('ln') or 0
            ctx.violation('attribution:' + vd, c01.stmt_at(c['ast'], v['status'].get('ln') or ln), {'program': c['text'], 'cfg': o['cfg'], 'observed_event': ev,
                                                                                                'observed_outcome': o['outcome'], 'spec_status': v['status']})
    # binding demonstration: shift one statement start by one byte / change a recorded line
    import copy
    demo = []
    for c in cases[:10]:
        js = [i for i, s in enumerate(c['stmts']) if s['e'] > s['s'] + 2]
        if js:
            d = copy.deepcopy(c)
            d['tid'] = len(demo)
            d['stmts'][js[0]]['s'] += 1
            demo.append(d)
            d2 = copy.deepcopy(c)
            d2['tid'] = len(demo)
            d2['stmts'][js[-1]]['ln'] += 1
            demo.append(d2)
    dv = validate(work, demo, 'demo.json') if demo else []
    bd = {'corrupted': len(demo), 'rejected': sum(1 for x in dv if x['verdict'] != 'ok')}
    ctx.coverage.update({
        'states': 2 * len(cases) + sum(v['steps'] for v in qv), 'transitions': len(cases) + sum(v['steps'] for v in qv),
        'traces_validated_against_impl': len(cases) + len(qcases), 'debug_maps_checked': len(cases), 'statement_records_checked': nst,
        'dynamic_attribution_verdicts': dyn, 'binding_demo': bd,
        'samples': [{'program': metas[0]['text'][:600], 'records': cases[0]['stmts'][:5]}] if cases else [],
    })
    if bd['rejected'] != bd['corrupted']:
        raise Machinery('binding demonstration failed: %r' % bd)


def replay(ctx, case):
    print(case.get('program'))
    print(json.dumps({k: v for k, v in case.items() if k != 'program'}, indent=1)[:4000])
    ctx.coverage.update({'evaluations': 1, 'distinct_nontrivial': 2, 'samples': [case.get('level')]})
