------------------------------ MODULE MC_Session ------------------------------
(* Enumerates the session histories that drive the real compiler: all         *)
(* sequences of <= K requests over NREQ request ids (one fresh process per    *)
(* history).  In the model the result of a request is, by definition, a        *)
(* function of the request (Result(r) = r), so the invariant holds; what the   *)
(* model contributes is the exhaustive set of histories and the statement of   *)
(* the invariant that Trace_Session.tla then checks on recorded results.       *)
EXTENDS Session, TLC, Json
CONSTANTS NREQ, K

VARIABLES hist, closed
vars == <<hist, closed, memo, touched, env>>
Init == hist = <<>> /\ closed = FALSE /\ SInit
Req(r) == /\ ~closed /\ Len(hist) < K
          /\ Serve(r, r) /\ hist' = Append(hist, r) /\ UNCHANGED closed
Close == ~closed /\ hist # <<>> /\ closed' = TRUE /\ UNCHANGED <<hist, memo, touched, env>>
Next == Close \/ \E r \in 1..NREQ : Req(r)
Spec == Init /\ [][Next]_vars

FunctionOfRequest == \A i, j \in 1..Len(memo) : memo[i][1] = memo[j][1] => memo[i][2] = memo[j][2]
TouchedIsHist == touched = hist
Report == closed => PrintT(ToJson([hist |-> hist]))
=============================================================================
