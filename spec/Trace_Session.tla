---------------------------- MODULE Trace_Session ----------------------------
(* One trace = everything recorded for one check run: a sequence of events     *)
(*   [k |-> "proc", env |-> e]                 a fresh process starts           *)
(*   [k |-> "req", req |-> id, res |-> hash]   a request served with its result *)
(* The whole sequence must be a behaviour of Session.tla; the verdict names    *)
(* the first request whose result differs from an earlier occurrence.          *)
EXTENDS Session, TLC, Json, IOUtils
Trace == JsonDeserialize(IOEnv.TRACE)

VARIABLES l, verdict, bad
vars == <<l, verdict, bad, memo, touched, env>>
Init == l = 1 /\ verdict = "run" /\ bad = <<>> /\ SInit
Ev == Trace[l]

Step == /\ verdict = "run"
        /\ IF l > Len(Trace)
           THEN verdict' = (IF bad = <<>> THEN "ok" ELSE "differs") /\ UNCHANGED <<l, bad, memo, touched, env>>
           ELSE IF Ev.k = "proc" THEN NewProcess(Ev.env) /\ l' = l + 1 /\ UNCHANGED <<verdict, bad>>
           ELSE IF Conforms(Ev.req, Ev.res)
                THEN Serve(Ev.req, Ev.res) /\ l' = l + 1 /\ UNCHANGED <<verdict, bad>>
                ELSE \* not a step of Session.tla: remember the event, keep checking the rest
                     /\ bad' = Append(bad, l) /\ l' = l + 1
                     /\ touched' = Append(touched, Ev.req) /\ UNCHANGED <<verdict, memo, env>>
Spec == Init /\ [][Step]_vars
Report == verdict # "run" =>
    PrintT(ToJson([verdict |-> verdict, l |-> l, bad |-> bad]))
=============================================================================
