------------------------------- MODULE Trace_QB -------------------------------
(* Validation of recorded runs against the source semantics.  A case = one     *)
(* program (AST) and, for each compiler configuration, the device events and   *)
(* the outcome recorded from the real VM.  QB.tla executes the program         *)
(* statement by statement; every device event it produces must be the next     *)
(* recorded event of every configuration (kind, item count, separators, types  *)
(* up to INTEGER=LONG, values, source line where the build has debug info),    *)
(* and the final outcome must agree.  One verdict per configuration, naming    *)
(* the first failing clause.                                                   *)
EXTENDS QB, TLC, Json, IOUtils
CONSTANT MaxSteps
Cases == JsonDeserialize(IOEnv.CASES)

VARIABLES cid, M, pos, verd, steps
vars == <<cid, M, pos, verd, steps>>
C == Cases[cid]
NC == Len(C.obs)

Init == /\ cid \in 1..Len(Cases) /\ M = InitM /\ steps = 0
        /\ pos = [c \in 1..Len(Cases[cid].obs) |-> 1]
        /\ verd = [c \in 1..Len(Cases[cid].obs) |-> "run"]

\* ---- comparing one spec event with one recorded event -----------------------------
ItemClause(si, oi) ==
    IF si.k # oi.k THEN "item-kind"
    ELSE IF si.k = "sep" THEN (IF si.s = oi.s THEN "" ELSE "separator")
    ELSE IF oi.big THEN "value"
    ELSE IF SameObs(si.v, oi.v) THEN ""
    ELSE IF si.v[1] # oi.v[1] /\ ~(IsIntK(si.v[1]) /\ IsIntK(oi.v[1])) THEN "type"
    ELSE "value"

EvClause(ev, oe) ==
    IF ev.k # oe.k THEN "event-kind"
    ELSE IF ev.k = "print" THEN
        IF Len(ev.items) # Len(oe.items) THEN "item-count"
        ELSE LET bad == {i \in 1..Len(ev.items) : ItemClause(ev.items[i], oe.items[i]) # ""} IN
             IF bad # {} THEN ItemClause(ev.items[CHOOSE i \in bad : \A j \in bad : i <= j],
                                         oe.items[CHOOSE i \in bad : \A j \in bad : i <= j])
             ELSE IF oe.ln # 0 /\ oe.ln # ev.ln THEN "line" ELSE ""
    ELSE IF ev.k = "dev" THEN
        IF ev.op # oe.op THEN "device-op"
        ELSE IF Len(ev.args) # Len(oe.args) THEN "arg-count"
        ELSE IF \E i \in 1..Len(ev.args) : oe.args[i].big \/ ~SameObs(ev.args[i], oe.args[i].v) THEN "value"
        ELSE IF oe.ln # 0 /\ oe.ln # ev.ln THEN "line" ELSE ""
    ELSE "event-kind"

TrapNames(kind) ==
    CASE kind = "OVF" -> {"INVALID_CELL_VALUE"}
      [] kind = "DIV0" -> {"DIVISION_BY_ZERO"}
      [] kind = "SUBSCRIPT" -> {"INDEX_OUT_OF_RANGE"}
      [] kind = "RANK" -> {"INVALID_DIMENSIONS"}
      [] kind = "ILLEGAL" -> {"INVALID_OPERAND_VALUE"}
      [] kind = "HANDLER" -> {"ERRHAND_IN_HANDLER"}
      [] OTHER -> {}

\* final outcome of the spec against the recorded outcome of a configuration
OutClause(st, o, rest) ==
    IF o.how = "host-exception" THEN "host-exception"
    ELSE IF st.k = "ended" THEN
         (IF rest > 0 THEN "extra-event"
          ELSE IF o.how \in {"halt", "eoc"} THEN "ok" ELSE "outcome")
    ELSE IF st.k = "error" THEN
         (IF rest > 0 THEN "extra-event"
          ELSE IF o.how # "trap" THEN "missing-error"
          ELSE IF st.kind \in {"RETURN_WITHOUT_GOSUB", "RESUME_WITHOUT_ERROR"} THEN "ok"
          ELSE IF o.trap \notin TrapNames(st.kind) THEN "error-class"
          ELSE IF o.ln # 0 /\ o.ln # st.ln THEN "error-line" ELSE "ok")
    ELSE st.k        \* "oom" / "budget": the rest of the run is out of the model, not a verdict

Running == \E c \in 1..NC : verd[c] = "run"

Step ==
  /\ Running
  /\ LET M1 == IF steps >= MaxSteps THEN [M EXCEPT !.status = [k |-> "budget", kind |-> "", ln |-> 0], !.ev = NoEv]
               ELSE StepM(C.prog, M)
         ev == M1.ev
         \* after the event (if any)
         v1 == [c \in 1..NC |->
                  IF verd[c] # "run" \/ ev.k = "none" THEN verd[c]
                  ELSE IF pos[c] > Len(C.obs[c].events) THEN
                       (IF C.obs[c].outcome.how = "host-exception" THEN "host-exception"
                        ELSE IF C.obs[c].outcome.how \in {"budget", "script"} THEN "impl-" \o C.obs[c].outcome.how
                        ELSE "missing-event")
                  ELSE LET cl == EvClause(ev, C.obs[c].events[pos[c]]) IN IF cl = "" THEN "run" ELSE cl]
         p1 == [c \in 1..NC |-> IF verd[c] = "run" /\ v1[c] = "run" /\ ev.k # "none" THEN pos[c] + 1 ELSE pos[c]]
         v2 == [c \in 1..NC |->
                  IF v1[c] # "run" \/ M1.status.k = "run" THEN v1[c]
                  ELSE OutClause(M1.status, C.obs[c].outcome, Len(C.obs[c].events) - p1[c] + 1)]
     IN /\ M' = M1 /\ pos' = p1 /\ verd' = v2 /\ steps' = steps + 1 /\ UNCHANGED cid

Spec == Init /\ [][Step]_vars
Report == ~Running =>
    PrintT(ToJson([tid |-> C.tid, verd |-> verd, pos |-> pos, steps |-> steps,
                   status |-> M.status]))
=============================================================================
