-------------------------------- MODULE Data --------------------------------
(***************************************************************************)
(* DATA / READ / RESTORE (property C15).                                   *)
(*                                                                         *)
(* (a) The DATA tokenizer as a character automaton over the text that      *)
(*     follows the DATA keyword (up to the end of the statement).          *)
(*     Item = <<kind, bytes>> with kind "u" (unquoted, trimmed), "q"       *)
(*     (quoted, verbatim) or "e" (empty).  Texts the language reference    *)
(*     does not settle (a character other than blank or comma after a     *)
(*     closing quote; a quote inside an unquoted item; an unclosed quote)  *)
(*     tokenize to ok = FALSE ("amb").                                      *)
(* (b) The program-level machine: the items of all DATA statements in      *)
(*     source order, a cursor, READ with conversion to the target type,    *)
(*     RESTORE without and with a label.                                   *)
(***************************************************************************)
EXTENDS Numeral    \* the numeral scanner (Scan, WellFormed, Field, ...)


\* ---- (a) tokenizer -----------------------------------------------------------
\* state: st in {"before","unq","quoted","after","amb"}, cur (bytes), items
Tok0 == [st |-> "before", cur |-> <<>>, items |-> <<>>]

Unq(cur) == LET t == Trim(cur) IN <<"u", t>>

TokStep(q, c) ==
    CASE q.st = "before" ->
           IF c = BLANK THEN q
           ELSE IF c = COMMA THEN [q EXCEPT !.items = Append(q.items, <<"e", <<>>>>)]
           ELSE IF c = QUOTE THEN [q EXCEPT !.st = "quoted", !.cur = <<>>]
           ELSE [q EXCEPT !.st = "unq", !.cur = <<c>>]
      [] q.st = "unq" ->
           IF c = COMMA THEN [q EXCEPT !.st = "before", !.cur = <<>>, !.items = Append(q.items, Unq(q.cur))]
           ELSE IF c = QUOTE THEN [q EXCEPT !.st = "amb"]
           ELSE [q EXCEPT !.cur = Append(q.cur, c)]
      [] q.st = "quoted" ->
           IF c = QUOTE THEN [q EXCEPT !.st = "after", !.cur = <<>>, !.items = Append(q.items, <<"q", q.cur>>)]
           ELSE [q EXCEPT !.cur = Append(q.cur, c)]
      [] q.st = "after" ->
           IF c = BLANK THEN q
           ELSE IF c = COMMA THEN [q EXCEPT !.st = "before"]
           ELSE [q EXCEPT !.st = "amb"]
      [] OTHER -> q

RECURSIVE TokFrom(_, _)
TokFrom(q, s) == IF s = <<>> THEN q ELSE TokFrom(TokStep(q, Head(s)), Tail(s))

\* the item list of a DATA text, or "amb"
Tokenize(s) ==
    LET q == TokFrom(Tok0, s)
    IN CASE q.st = "amb"    -> [ok |-> FALSE, items |-> <<>>]
         [] q.st = "before" -> [ok |-> TRUE, items |-> Append(q.items, <<"e", <<>>>>)]
         [] q.st = "unq"    -> [ok |-> TRUE, items |-> Append(q.items, Unq(q.cur))]
         [] q.st = "quoted" -> [ok |-> FALSE, items |-> <<>>]   \* unclosed quote: not settled by the property [amb]
         [] q.st = "after"  -> [ok |-> TRUE, items |-> q.items]

\* ---- (b) READ conversion ------------------------------------------------------
\* result <<class, value>>: class "value" | "error" | "either"
\* (either: a quoted numeral read into a numeric variable)
ReadItem(it, t) ==
    IF t = "T" THEN <<"value", <<"T", it[2]>>>>
    ELSE IF it[1] = "e" THEN <<"value", IF t \in {"I", "L"} THEN <<"I", 0>> ELSE <<"F", FALSE, 0, 0>>>>
    ELSE LET q == Scan(it[2])
             f == Field(it[2], t)
         IN IF ~WellFormed(q) THEN <<"error", <<"skip">>>>
            ELSE IF it[1] = "q" THEN <<"either", <<"skip">>>>
            ELSE IF f[1] = "reject" THEN <<"error", <<"skip">>>>        \* the type cannot hold it
            ELSE IF t \in {"I", "L"} /\ (q.point \/ q.mark # "") THEN
                 \* a fraction or exponent read into an integer variable is rounded (half to even);
                 \* computed here only for a plain fraction of at most 9 digits
                 IF q.mark = "" /\ Len(q.ds) <= 9 THEN
                     LET n == ToNat(q.ds)
                         fl == Len(q.ds) - q.il
                         RECURSIVE P10(_)
                         P10(k) == IF k = 0 THEN 1 ELSE 10 * P10(k - 1)
                         d == P10(fl)
                         qt == n \div d
                         rm == n % d
                         r == IF 2 * rm > d \/ (2 * rm = d /\ qt % 2 = 1) THEN qt + 1 ELSE qt
                         v == IF q.neg THEN 0 - r ELSE r
                         lo == IF t = "I" THEN -32768 ELSE -2147483647 - 1
                         hi == IF t = "I" THEN 32767 ELSE 2147483647
                     IN IF v >= lo /\ v <= hi THEN <<"value", <<"I", v>>>> ELSE <<"error", <<"skip">>>>
                 ELSE <<"value", <<"skip">>>>
            ELSE <<"value", f[2]>>

\* ---- (b) the machine -----------------------------------------------------------
\* layout: sequence of source lines, each [lab |-> label or "", data |-> DATA text or <<-1>> if none]
HasData(ln) == ln.data # <<-1>>
RECURSIVE FlatFrom(_, _)
FlatFrom(layout, i) ==
    IF i > Len(layout) THEN <<>>
    ELSE (IF HasData(layout[i]) THEN Tokenize(layout[i].data).items ELSE <<>>) \o FlatFrom(layout, i + 1)
Flat(layout) == FlatFrom(layout, 1)
\* cursor (1-based) of the first item of the first DATA statement at or after line i
StartOfLine(layout, i) == Len(Flat(layout)) - Len(FlatFrom(layout, i)) + 1
LabelLine(layout, l) == CHOOSE i \in 1..Len(layout) : layout[i].lab = l

VARIABLES cursor, status, lastval
dvars == <<cursor, status, lastval>>

DInit == cursor = 1 /\ status = "run" /\ lastval = <<"none">>

Read(layout, t) ==
    /\ status = "run"
    /\ IF cursor > Len(Flat(layout))
       THEN status' = "out-of-data" /\ lastval' = <<"none">> /\ UNCHANGED cursor
       ELSE LET r == ReadItem(Flat(layout)[cursor], t)
            IN \/ /\ r[1] \in {"value", "either"}
                  /\ lastval' = r[2] /\ cursor' = cursor + 1 /\ UNCHANGED status
               \/ /\ r[1] \in {"error", "either"}
                  /\ status' = "bad-item" /\ lastval' = <<"none">> /\ UNCHANGED cursor

Restore(layout, l) ==
    /\ status = "run"
    /\ cursor' = IF l = "" THEN 1 ELSE StartOfLine(layout, LabelLine(layout, l))
    /\ lastval' = <<"none">> /\ UNCHANGED status
=============================================================================
