------------------------------- MODULE MC_Data -------------------------------
(* Two bounded models over Data.tla, selected by MODE:                        *)
(*  "tok"  all DATA texts of length <= L over the alphabet; prints the text,   *)
(*         the statement part (up to the first colon outside quotes) and its   *)
(*         item list                                                           *)
(*  "prog" for each layout scenario all READ/RESTORE sequences of length <= K; *)
(*         prints the sequence with the expected result of every operation     *)
EXTENDS Data, TLC, Json, IOUtils
CONSTANTS L, K, MODE
Alphabet == JsonDeserialize(IOEnv.ALPHA)       \* sequence of byte codes
Scen == IF MODE = "prog" THEN JsonDeserialize(IOEnv.SCEN) ELSE <<>>

VARIABLES text, closed, sid, ops, res
vars == <<text, closed, sid, ops, res, cursor, status, lastval>>

\* the DATA statement ends at the first colon outside quotes
RECURSIVE CutAt(_, _, _)
CutAt(s, i, inq) == IF i > Len(s) THEN Len(s)
                    ELSE IF s[i] = QUOTE THEN CutAt(s, i + 1, ~inq)
                    ELSE IF s[i] = COLON /\ ~inq THEN i - 1
                    ELSE CutAt(s, i + 1, inq)
Cut(s) == SubSeq(s, 1, CutAt(s, 1, FALSE))

\* ---- tok mode -------------------------------------------------------------------
TokInit == text = <<>> /\ closed = FALSE /\ sid = 0 /\ ops = <<>> /\ res = <<>> /\ DInit
Extend(c) == /\ ~closed /\ Len(text) < L /\ text' = Append(text, c)
             /\ UNCHANGED <<closed, sid, ops, res, cursor, status, lastval>>
CloseText == /\ ~closed /\ closed' = TRUE
             /\ UNCHANGED <<text, sid, ops, res, cursor, status, lastval>>
TokNext == CloseText \/ \E i \in 1..Len(Alphabet) : Extend(Alphabet[i])

\* model properties of the tokenizer
TokOK == closed =>
    LET t == Tokenize(Cut(text)) IN
    t.ok => /\ Len(t.items) >= 1
            \* unquoted items are trimmed and contain neither comma nor quote
            /\ \A i \in 1..Len(t.items) :
                 t.items[i][1] = "u" =>
                   /\ t.items[i][2] # <<>>
                   /\ Head(t.items[i][2]) # BLANK
                   /\ t.items[i][2][Len(t.items[i][2])] # BLANK
                   /\ \A j \in 1..Len(t.items[i][2]) : t.items[i][2][j] \notin {COMMA, QUOTE}
TokReport == closed =>
    LET c == Cut(text) t == Tokenize(c) IN
    PrintT(ToJson([text |-> text, cut |-> c, ok |-> t.ok, items |-> t.items]))

\* ---- prog mode -------------------------------------------------------------------
Lay == Scen[sid].layout
Labels == Scen[sid].labels      \* label names usable in RESTORE
Types == Scen[sid].types        \* target types to read with

ProgInit == /\ sid \in 1..Len(Scen) /\ text = <<>> /\ closed = FALSE /\ ops = <<>> /\ res = <<>> /\ DInit

DoRead(t) == /\ Len(ops) < K /\ ~closed
             /\ Read(Lay, t)
             /\ ops' = Append(ops, <<"read", t>>)
             /\ res' = Append(res, IF cursor > Len(Flat(Lay)) THEN <<"out-of-data", <<"skip">>>>
                                   ELSE ReadItem(Flat(Lay)[cursor], t))
             /\ UNCHANGED <<text, closed, sid>>
DoRestore(l) == /\ Len(ops) < K /\ ~closed
                /\ Restore(Lay, l)
                /\ ops' = Append(ops, <<"restore", l>>)
                /\ res' = Append(res, <<"restored", <<"skip">>>>)
                /\ UNCHANGED <<text, closed, sid>>
Finish == /\ ~closed /\ closed' = TRUE /\ UNCHANGED <<text, sid, ops, res, cursor, status, lastval>>

ProgNext == \/ \E i \in 1..Len(Types) : DoRead(Types[i])
            \/ DoRestore("")
            \/ \E i \in 1..Len(Labels) : DoRestore(Labels[i])
            \/ Finish

\* model properties: the cursor never moves backwards except by RESTORE, stays in range,
\* and after an error nothing more happens
CursorOK == MODE = "prog" => (cursor >= 1 /\ cursor <= Len(Flat(Lay)) + 1)
StepOK == [][MODE = "prog" =>
             /\ (status # "run" => UNCHANGED <<cursor, status>>)
             /\ (cursor' # cursor => ops' # ops)
             /\ ((cursor' # cursor /\ ops'[Len(ops')][1] # "restore") => cursor' = cursor + 1)]_vars
ProgReport == (closed \/ status # "run") =>
    PrintT(ToJson([sid |-> sid, ops |-> ops, res |-> res, status |-> status]))

Init == IF MODE = "tok" THEN TokInit ELSE ProgInit
Next == IF MODE = "tok" THEN TokNext ELSE ProgNext
Spec == Init /\ [][Next]_vars
Report == IF MODE = "tok" THEN TokReport ELSE ProgReport
=============================================================================
