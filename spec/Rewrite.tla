------------------------------- MODULE Rewrite -------------------------------
(***************************************************************************)
(* Behaviour-neutral rewritings of a source text (property C14).           *)
(*                                                                         *)
(* A program is, for this purpose, its sequence of statements              *)
(*   Stm[i] = [k    "simple" (may share a physical line), "ifline"         *)
(*                  (single-line IF: everything after it on the line is    *)
(*                  governed by it), "other" (block headers/ends, DATA,    *)
(*                  declarations: stay on their own line),                 *)
(*             lab  TRUE iff the statement carries a label or line number  *)
(*                  (which must open a physical line),                     *)
(*             let, call, nxt, ne  TRUE iff the statement has a site for   *)
(*                  the optional LET / CALL form / NEXT variable / <>,     *)
(*             lbl0, lbl1  TRUE iff the statement as written (lbl0), or in *)
(*                  its other CALL form (lbl1), is a bare identifier: at   *)
(*                  the start of a line and followed by a colon it reads   *)
(*                  as a label, not as a call]                             *)
(* A SURFACE is one way of writing that sequence down:                     *)
(*   join  boundaries i (between statement i and i+1) written as a colon   *)
(*   cmt   statements followed by a trailing comment                       *)
(*   gap   boundaries (0..n) at which empty or REM lines are inserted      *)
(*   let, call, nxt, ne   sites at which the optional syntax is toggled    *)
(*   kase, blank, names   global styles: letter case, spacing, and the     *)
(*                        naming scheme of labels / line numbers           *)
(* The rewriting steps toggle one site or change one style.  What must not *)
(* change is the READING of the text: which statement is governed by a     *)
(* single-line IF, which statements are swallowed by a comment, where      *)
(* labels stand.  Neutral states that; TLC checks it over every surface    *)
(* reachable by legal steps, so an illegal rule (joining after a           *)
(* single-line IF, after a comment, before a label, after a bare call) is   *)
(* a counterexample.                                                       *)
(***************************************************************************)
EXTENDS Integers, Sequences, FiniteSets

CONSTANTS Stm,          \* the statement sequence
          NK, NB, NN,   \* number of case styles, blank styles, naming schemes
          Strict        \* TRUE: the rules as used; FALSE: joining after a single-line IF allowed (must be refuted)

N == Len(Stm)
Sites(f) == {i \in 1..N : Stm[i][f]}

Plain == [join |-> {}, cmt |-> {}, gap |-> {}, let |-> {}, call |-> {}, nxt |-> {}, ne |-> {},
          kase |-> 0, blank |-> 0, names |-> 0]

\* a boundary may be written as a colon only between two simple statements, the second without
\* label, with neither a comment nor inserted lines in between
BareName(s, i) == IF i \in s.call THEN Stm[i].lbl1 ELSE Stm[i].lbl0
OpensLine(s, i) == i = 1 \/ (i - 1) \notin s.join
Joinable(s, i) == /\ (Stm[i].k = "simple" \/ (~Strict /\ Stm[i].k = "ifline")) /\ Stm[i + 1].k = "simple"
                  /\ ~(BareName(s, i) /\ OpensLine(s, i))
                  /\ ~Stm[i + 1].lab
                  /\ i \notin s.cmt /\ i \notin s.gap
Legal(s) == /\ \A i \in s.join : Joinable(s, i)
            /\ s.let \subseteq Sites("let") /\ s.call \subseteq Sites("call")
            /\ s.nxt \subseteq Sites("nxt") /\ s.ne \subseteq Sites("ne")

\* ---- the reading of a surface -----------------------------------------------------
\* statement j is on the same physical line as j - 1 iff the boundary between them is a colon;
\* it is governed (swallowed) if an earlier statement of its physical line is a single-line IF
\* (carries a comment)
RECURSIVE Governed(_, _), Swallowed(_, _)
Governed(s, j) == j > 1 /\ (j - 1) \in s.join /\ (Stm[j - 1].k = "ifline" \/ Governed(s, j - 1))
Swallowed(s, j) == j > 1 /\ (j - 1) \in s.join /\ ((j - 1) \in s.cmt \/ Swallowed(s, j - 1))
LabelInside(s, j) == Stm[j].lab /\ j > 1 /\ (j - 1) \in s.join
ReadsAsLabel(s, j) == BareName(s, j) /\ OpensLine(s, j) /\ j \in s.join
Neutral(s) == \A j \in 1..N : ~Governed(s, j) /\ ~Swallowed(s, j) /\ ~LabelInside(s, j) /\ ~ReadsAsLabel(s, j)

\* ---- steps ---------------------------------------------------------------------------
Flip(S, i) == IF i \in S THEN S \ {i} ELSE S \cup {i}
Succs(s) ==
    {[s EXCEPT !.join = Flip(s.join, i)] : i \in 1..(N - 1)}
    \cup {[s EXCEPT !.cmt = Flip(s.cmt, i)] : i \in 1..N}
    \cup {[s EXCEPT !.gap = Flip(s.gap, i)] : i \in 0..N}
    \cup {[s EXCEPT !.let = Flip(s.let, i)] : i \in Sites("let")}
    \cup {[s EXCEPT !.call = Flip(s.call, i)] : i \in Sites("call")}
    \cup {[s EXCEPT !.nxt = Flip(s.nxt, i)] : i \in Sites("nxt")}
    \cup {[s EXCEPT !.ne = Flip(s.ne, i)] : i \in Sites("ne")}
    \cup {[s EXCEPT !.kase = v] : v \in 0..(NK - 1)}
    \cup {[s EXCEPT !.blank = v] : v \in 0..(NB - 1)}
    \cup {[s EXCEPT !.names = v] : v \in 0..(NN - 1)}

\* every applicable site of each kind of a set at once (the extremes of the orbit)
AllOf(ks) ==
    LET base == [Plain EXCEPT !.call = IF "call" \in ks THEN Sites("call") ELSE {}]
        j == IF "join" \in ks THEN {i \in 1..(N - 1) : Joinable(base, i)} ELSE {}
    IN [join |-> j,
        cmt |-> IF "cmt" \in ks THEN {i \in 1..N : i \notin j} ELSE {},
        gap |-> IF "gap" \in ks THEN {i \in 0..N : i \notin j} ELSE {},
        let |-> IF "let" \in ks THEN Sites("let") ELSE {},
        call |-> IF "call" \in ks THEN Sites("call") ELSE {},
        nxt |-> IF "nxt" \in ks THEN Sites("nxt") ELSE {},
        ne |-> IF "ne" \in ks THEN Sites("ne") ELSE {},
        kase |-> 0, blank |-> 0, names |-> 0]
Kinds == {"join", "cmt", "gap", "let", "call", "nxt", "ne"}
=============================================================================
