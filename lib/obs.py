"""Encoding of VM cells for TLC (31-bit integers, ASCII, byte arrays only)."""
import math
from decimal import Decimal

TYPE_LETTER = {'INTEGER': 'I', 'LONG': 'L', 'SINGLE': 'S', 'DOUBLE': 'D', 'STRING': 'T',
               'REFERENCE': 'R', 'FIXED_STRING': 'T'}


def S(s):
    return [ord(c) if ord(c) < 256 else 63 for c in s]


def shortest(v, t):
    """A float identified by its shortest round-trip decimal: ['F', neg, mant, e10]
    (numpy.float32 / python repr); mant = -1 if it needs more than 31 bits or is not finite."""
    if math.isnan(v) or math.isinf(v):
        return ['F', False, -1, 0]
    if t == 'S':
        import numpy
        r = str(numpy.float32(v))
    else:
        r = repr(float(v))
    d = Decimal(r)
    sign, digits, exp = d.as_tuple()
    digits = list(digits)
    while len(digits) > 1 and digits[-1] == 0:
        digits.pop()
        exp += 1
    mant = int(''.join(map(str, digits)))
    if mant == 0:
        return ['F', False, 0, 0]
    if mant >= 2 ** 31:
        return ['F', bool(sign), -1, 0]
    return ['F', bool(sign), mant, exp]


def cell_value(cell):
    tn = cell.type.name
    if tn in ('INTEGER', 'LONG'):
        v = int(cell.value)
        return ['I', v] if -2 ** 31 <= v < 2 ** 31 else ['?', 0]
    if tn == 'SINGLE':
        return shortest(cell.value, 'S')
    if tn == 'DOUBLE':
        return shortest(cell.value, 'D')
    if tn == 'STRING':
        return ['T', S(cell.value)]
    return ['?', 0]


def cell_type(cell):
    return TYPE_LETTER.get(cell.type.name, '?')
