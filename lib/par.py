"""Process-parallel map (fork).  Workers import the repository lazily via lib.qb."""
import multiprocessing as mp
import os

NPROC = int(os.environ.get('VERIF_PROCS', '14'))


def pmap(func, items, procs=None, chunk=None):
    items = list(items)
    procs = procs or NPROC
    if len(items) <= 2 or procs <= 1:
        return [func(x) for x in items]
    if chunk is None:
        chunk = max(1, min(16, len(items) // (procs * 4) or 1))
    ctx = mp.get_context('fork')
    with ctx.Pool(min(procs, len(items))) as pool:
        return pool.map(func, items, chunksize=chunk)
