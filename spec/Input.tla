------------------------------- MODULE Input -------------------------------
(***************************************************************************)
(* The INPUT statement as a protocol machine (property C18).               *)
(*                                                                         *)
(* Texts are sequences of byte codes.  A response line is split at commas, *)
(* each field is trimmed of blanks; a numeric field is scanned by a        *)
(* character automaton for                                                 *)
(*    [+|-] (digits [. digits*] | . digits) [(E|D) [+|-] digits]           *)
(* and classified per variable type as                                     *)
(*    "accept"  the implementation must accept it,                         *)
(*    "reject"  the implementation must not accept it (malformed, or the   *)
(*              type cannot hold the value),                               *)
(*    "either"  the property does not decide (a well formed numeral in a   *)
(*              form QBASIC accepts but an implementation may refuse: a    *)
(*              fraction or exponent for an integer variable, the D        *)
(*              exponent marker, an empty field, a value within one        *)
(*              rounding step of the type limit).                          *)
(* The property only says "accepted ONLY IF ...", hence the third class.   *)
(***************************************************************************)
EXTENDS Numeral

\* prompt forms: "none" INPUT v | "semi" INPUT "p"; v | "comma" INPUT "p", v
PromptText(form, p) == IF form = "comma" THEN p ELSE (IF form = "none" THEN <<>> ELSE p) \o QMark

\* ---- the transition system ----------------------------------------------------
VARIABLES phase, shown, vals
ivars == <<phase, shown, vals>>

IInit == phase = "prompt" /\ shown = <<>> /\ vals = <<>>

ShowPrompt(form, p) == /\ phase = "prompt"
                       /\ shown' = Append(shown, PromptText(form, p))
                       /\ phase' = "wait" /\ UNCHANGED vals

Accept(line, types) == /\ phase = "wait"
                       /\ LineClass(line, types) \in {"accept", "either"}
                       /\ vals' = LineVals(line, types)
                       /\ phase' = "done" /\ UNCHANGED shown

Redo(line, types) == /\ phase = "wait"
                     /\ LineClass(line, types) \in {"reject", "either"}
                     /\ shown' = Append(shown, RedoText)
                     /\ phase' = "prompt" /\ UNCHANGED vals

\* nothing is assigned before acceptance
NoEarlyAssign == [][phase' # "done" => vals' = vals]_ivars
=============================================================================
