"""Tick recorder: one record per executed instruction, with the type-level facts the
trace specifications need (types of the topmost cells before/after, depths, typed reads,
stores with the type the cell held before, statement boundaries, trap)."""
import re
from lib.obs import TYPE_LETTER

_SPLIT = re.compile(r'^([a-z0-9]+?)([%&!#$@]{0,2})$')
TOPN = 8


def split_op(op):
    m = _SPLIT.match(op)
    if not m:
        return op, ''
    b, t = m.group(1), m.group(2)
    return b, t


def tl(cell):
    return TYPE_LETTER.get(cell.type.name, '?')


class TickRecorder:
    def __init__(self, module, maxticks=4000):
        from qvm.cpu import get_device_name_by_id, get_device_op_name_by_id, HaltReason
        self._dn, self._don, self._HR = get_device_name_by_id, get_device_op_name_by_id, HaltReason
        self.module = module
        self.ticks = []
        self.maxticks = maxticks
        self.keep = []                 # keeps every segment alive so that id() is never reused
        self.celltype = {}
        self.bnd = set()
        self.retpops = set()           # addresses of the `pop` of a RETURN <label> statement
        di = module.debug_info
        if di is not None:
            for st in di.stmts:
                if type(st.node).__name__ == 'ReturnStmt' and st.end_offset > st.start_offset:
                    self.retpops.add(st.start_offset)
            for st in di.stmts:
                # clauses of a CASE line are recorded like statements but are parts of one
                if st.end_offset > st.start_offset and not type(st.node).__name__.endswith('CaseClause'):
                    self.bnd.add(st.start_offset)
        self.cur = None
        self.truncated = False
        self.traps = []                # trap names in order, through an instance-level wrapper of cpu._trap
        self._wrapped = False

    def wrap(self, cpu):
        if self._wrapped:
            return
        self._wrapped = True
        orig = cpu._trap
        rec = self

        def _trap(code, **kw):
            rec.traps.append(code.name)
            return orig(code, **kw)
        cpu._trap = _trap

    def _seg(self, seg):
        k = id(seg)
        if k not in self.celltype:
            self.celltype[k] = {}
            self.keep.append(seg)
        return self.celltype[k]

    def before(self, cpu, instr, operands, rec):
        self.cur = None
        self.wrap(cpu)
        self._ntr = len(self.traps)
        if len(self.ticks) >= self.maxticks:
            self.truncated = True
            return
        if instr is None:
            self.cur = {'pc': cpu.pc, 'ins': {'b': 'invalid', 't': '', 'a': [], 'dev': '', 'dop': ''}, 'top': [], 'n': 0,
                        'd0': len(cpu.stack), 'bnd': False, 'callproc': False, 'st': [], 'rdt': '', '_w': [], 'vals': [], 'retpop': False}
            return
        b, t = split_op(instr.op)
        st = cpu.stack
        top = [tl(c) for c in reversed(st[-TOPN:])]
        n = 0
        if st and st[-1].type.name == 'INTEGER':
            n = int(st[-1].value)
        ins = {'b': b, 't': t, 'a': [x if isinstance(x, int) else 0 for x in operands], 'dev': '', 'dop': ''}
        if b == 'io':
            dn = self._dn(operands[0]) or ''
            ins['dev'] = dn
            ins['dop'] = (self._don(dn, operands[1]) if dn else '') or ''
        if b == 'io' and ins['dop'] in ('print', 'input') and len(top) < n + 5:
            top = [tl(c) for c in reversed(st[-(n + 6):])]
        if b == 'frame' and len(top) < operands[0] + 2:
            top = [tl(c) for c in reversed(st[-(operands[0] + 2):])]
        vals = []
        for c in reversed(st[-3:]):
            tn = c.type.name
            if tn in ('INTEGER', 'LONG'):
                v = int(c.value)
                vals.append(['i', v if -2 ** 31 <= v < 2 ** 31 else (2 ** 31 - 1 if v > 0 else -2 ** 31)])
            elif tn in ('SINGLE', 'DOUBLE'):
                x = c.value
                vals.append(['f', 0 if x == 0 else (1 if x > 0 else (-1 if x < 0 else 2))])
            elif tn == 'STRING':
                vals.append(['s', len(c.value)])
            else:
                vals.append(['r', 0])
        cur = {'pc': cpu.pc, 'ins': ins, 'top': top, 'n': n, 'd0': len(st), 'bnd': cpu.pc in self.bnd,
               'callproc': False, 'st': [], 'rdt': '', '_w': [], 'vals': vals,
               'retpop': b == 'pop' and cpu.pc in self.retpops}
        try:
            if b == 'call':
                ti = cpu.get_instruction_at(operands[0])[0]
                cur['callproc'] = ti is not None and ti.op == 'frame'
            seg = idx = None
            if b in ('storel', 'readl'):
                seg, idx = cpu.cur_frame, operands[0]
            elif b in ('storeg', 'readg'):
                seg, idx = cpu.globals_segment, operands[0]
            elif b in ('storeidxl', 'readidxl'):
                seg, idx = cpu.cur_frame, operands[0] + operands[1]
            elif b in ('storeidxg', 'readidxg'):
                seg, idx = cpu.globals_segment, operands[0] + operands[1]
            elif b in ('storeref', 'deref') and st and st[-1].type.name == 'REFERENCE':
                seg, idx = st[-1].value.segment, st[-1].value.index
            if seg is not None and 0 <= idx < len(seg.cells):
                d = self._seg(seg)
                if b.startswith('store'):
                    vcell = st[-1] if b != 'storeref' else (st[-2] if len(st) >= 2 else None)
                    if vcell is not None:
                        cur['_w'].append((d, idx, tl(vcell)))
                elif t != '@':
                    held = seg.cells[idx]
                    if held is None:
                        cur['_w'].append((d, idx, {'%': 'I', '&': 'L', '!': 'S', '#': 'D', '$': 'T'}.get(t, '?')))
                    else:
                        cur['rdt'] = tl(held)
        except Exception:
            pass
        self.cur = cur

    def after(self, cpu, instr, operands, rec):
        cur = self.cur
        if cur is None:
            return
        self.cur = None
        st = cpu.stack
        cur['d1'] = len(st)
        cur['after'] = [tl(c) for c in reversed(st[-TOPN:])]
        trap = ''
        if cpu.halted and cpu.halt_reason == self._HR.TRAP and cpu.last_trap is not None:
            trap = cpu.last_trap.name
        new_traps = self.traps[self._ntr:]
        cur['handled'] = bool(new_traps) and not trap
        # the trap this instruction raised (the halting trap may be a later one, e.g. CANNOT_RESUME)
        trap_seen = new_traps[0] if new_traps else trap
        cur['trap'] = trap
        cur['trapseen'] = trap_seen
        nf = 0
        f = cpu.cur_frame
        while f is not None:
            nf += 1
            f = f.prev_frame
        cur['nf'] = nf
        cur['halt'] = bool(cpu.halted)
        if not trap:
            for d, idx, t in cur['_w']:
                prev = d.get(idx, '')
                cur['st'].append([prev, t, idx])
                if prev == '':
                    d[idx] = t
        del cur['_w']
        self.ticks.append(cur)
