"""C08  Debug information does not change what a program does.

Shapes.tla enumerates every statement shape (nesting of block statements with empty and
non-empty bodies, single-line IFs, SELECTs with empty cases) up to N nodes; each shape is
instantiated (every branch is taken for one of two passes), compiled with and without -g at
each optimisation level: acceptance must agree, the literal, data and global sections must be
byte-identical, and Trace_QB.tla validates the recorded events and outcome of all six builds
against the source semantics (so the two builds agree with each other and with the spec).
Generated whole programs go through the same comparison.
"""
import json
import os
import random

from lib import tlc, par, gen
from lib.common import Machinery
from checks import c01

LEVEL = 'model_checking'
CFGS = [(0, False), (0, True), (1, False), (1, True), (2, False), (2, True)]
SHAPES_CFG = '''SPECIFICATION Spec
CONSTANT N = %d
INVARIANT WellFormed
INVARIANT Report
CHECK_DEADLOCK FALSE
'''


def S(s):
    return [ord(c) for c in s]


def num(v):
    return {'k': 'num', 't': 'I', 'v': v}


def var(n):
    return {'k': 'lv', 'n': n, 'ix': [], 'fl': [], 't': 'I'}


def cond(i, j):
    # ((t% + c) MOD 2) = 0 : true in one of the two passes
    return {'k': 'bin', 'o': 'eq', 'l': {'k': 'par', 'a': {'k': 'bin', 'o': 'mod', 'l': {'k': 'par', 'a': {'k': 'bin', 'o': 'add', 'l': var('t%'), 'r': num(i + j)}}, 'r': num(2)}}, 'r': num(0)}


def build(tree, base):
    """AST statements of one shape; node ids are offset by `base` to make PRINT texts unique"""
    kids = {}
    for idx, n in enumerate(tree, 1):
        kids.setdefault((n['p'], n['s']), []).append(idx)

    def block(p, slot):
        out = []
        for i in kids.get((p, slot), []):
            out += stmt(i)
        return out

    def stmt(i):
        k = tree[i - 1]['k']
        uid = base + i
        if k == 's':
            return [{'k': 'print', 'items': [{'k': 'e', 'e': {'k': 'str', 'b': S('n%d' % uid)}}, {'k': 'sep', 's': ';'}, {'k': 'e', 'e': var('t%')}]}]
        if k == 'if':
            arms = [{'c': cond(uid, 0), 'body': block(i, 'then')}]
            if kids.get((i, 'elif')) or uid % 3 == 0:
                arms.append({'c': cond(uid, 1), 'body': block(i, 'elif')})
            els = block(i, 'else')
            return [{'k': 'if', 'arms': arms, 'els': els, 'hasels': bool(els) or uid % 2 == 0}]
        if k == 'ifl':
            return [{'k': 'if', 'line': True, 'arms': [{'c': cond(uid, 0), 'body': block(i, 'then')}], 'els': block(i, 'else'), 'hasels': False}]
        if k == 'for':
            v = var('k%d%%' % uid)
            return [{'k': 'for', 'v': v, 'from': num(1), 'to': num(2), 'step': num(1), 'hasstep': uid % 2 == 0, 'nextvar': uid % 3 == 0, 'body': block(i, 'body')}]
        if k == 'while':
            body = block(i, 'body')
            w = var('w%d%%' % uid)
            init = {'k': 'let', 'lv': w, 'e': num(0)}
            if not body:
                return [init, {'k': 'while', 'c': {'k': 'bin', 'o': 'lt', 'l': w, 'r': num(0)}, 'body': []}]
            inc = {'k': 'let', 'lv': w, 'e': {'k': 'bin', 'o': 'add', 'l': w, 'r': num(1)}}
            return [init, {'k': 'while', 'c': {'k': 'bin', 'o': 'lt', 'l': w, 'r': num(2)}, 'body': body + [inc]}]
        if k == 'do':
            body = block(i, 'body')
            d = var('d%d%%' % uid)
            dummy = num(0)
            if not body:
                # an empty body that runs once
                return [{'k': 'do', 'pre': '', 'prec': dummy, 'post': 'while', 'postc': {'k': 'bin', 'o': 'eq', 'l': num(0), 'r': num(1)}, 'body': []}]
            init = {'k': 'let', 'lv': d, 'e': num(0)}
            inc = {'k': 'let', 'lv': d, 'e': {'k': 'bin', 'o': 'add', 'l': d, 'r': num(1)}}
            form = uid % 3
            lt = {'k': 'bin', 'o': 'lt', 'l': d, 'r': num(2)}
            ge = {'k': 'bin', 'o': 'ge', 'l': d, 'r': num(2)}
            loop = {'k': 'do', 'pre': '', 'prec': dummy, 'post': '', 'postc': dummy, 'body': body + [inc]}
            if form == 0:
                loop.update(pre='while', prec=lt)
            elif form == 1:
                loop.update(post='until', postc=ge)
            else:
                loop.update(pre='until', prec=ge)
            return [init, loop]
        if k == 'sel':
            e = {'k': 'bin', 'o': 'mod', 'l': {'k': 'par', 'a': {'k': 'bin', 'o': 'add', 'l': var('t%'), 'r': num(uid)}}, 'r': num(3)}
            cases = [{'cl': [{'k': 'v', 'v': num(0)}], 'body': block(i, 'case1')},
                     {'cl': [{'k': 'range', 'lo': num(1), 'hi': num(1)}, {'k': 'is', 'o': 'gt', 'v': num(5)}], 'body': block(i, 'case2')}]
            return [{'k': 'select', 'e': e, 'cases': cases, 'els': block(i, 'else')}]
        raise ValueError(k)
    return block(0, 'body')


def program_of(shapes, with_sub):
    body = []
    base = 0
    for tr in shapes:
        body += build(tr, base)
        base += len(tr) + 1
    loop = {'k': 'for', 'v': var('t%'), 'from': num(0), 'to': num(1), 'step': num(1), 'hasstep': False, 'nextvar': True, 'body': body}
    procs = []
    main = [loop]
    if with_sub:
        # the same shapes once more inside a SUB (markers in procedure bodies), plus an empty SUB
        procs = [{'n': 'shp', 'kind': 'sub', 'rt': '', 'params': [], 'statics': [], 'body': [loop]},
                 {'n': 'nothing', 'kind': 'sub', 'rt': '', 'params': [], 'statics': [], 'body': []}]
        main = [{'k': 'callsub', 'n': 'shp', 'pi': 1, 'args': [], 'form': 'bare'},
                {'k': 'callsub', 'n': 'nothing', 'pi': 2, 'args': [], 'form': 'call'}]
    prog = {'types': [], 'consts': [], 'shared': [], 'main': gen.flatten(main), 'procs': procs}
    for p in prog['procs']:
        p['body'] = gen.flatten(p['body'])
    return prog


def fixed_program(i):
    """programs outside the shape grammar: dead code behind END (with a string literal of its own), error handling
    that is armed but never needed, END inside a single-line IF"""
    def s(t):
        return {'k': 'str', 'b': [ord(c) for c in t]}

    def num(v):
        return {'k': 'num', 't': 'I', 'v': v}

    def var(n, t='I'):
        return {'k': 'lv', 'n': n, 'ix': [], 'fl': [], 't': t}

    def pr(*es):
        items = []
        for k, e in enumerate(es):
            if k:
                items.append({'k': 'sep', 's': ';'})
            items.append({'k': 'e', 'e': e})
        return {'k': 'print', 'items': items}
    if i == 0:
        main = [{'k': 'let', 'lv': var('g$', 'T'), 'e': s('hello')}, pr(var('g$', 'T')), {'k': 'end'}, pr(s('never printed'))]
    elif i == 1:
        main = [{'k': 'onerror', 'mode': 'next'}, pr(s('a')), {'k': 'let', 'lv': var('x%'), 'e': num(5)}, pr(var('x%'))]
    elif i == 2:
        main = [{'k': 'onerror', 'mode': 'goto', 'label': 'hnd'}, pr(s('b')), {'k': 'end'}, {'k': 'label', 'n': 'hnd'}, pr(s('h')),
                {'k': 'resume', 'next': True}]
    elif i == 3:
        main = [{'k': 'let', 'lv': var('x%'), 'e': num(1)},
                {'k': 'if', 'line': True, 'arms': [{'c': {'k': 'bin', 'o': 'eq', 'l': var('x%'), 'r': num(1)}, 'body': [pr(s('t')), {'k': 'end'}]}], 'els': [], 'hasels': False},
                pr(s('dead too'))]
    else:
        main = [{'k': 'gosub', 'label': 'gs'}, pr(s('back')), {'k': 'end'}, {'k': 'label', 'n': 'gs'}, pr(s('in')), {'k': 'return'}, pr(s('after return'))]
    return {'types': [], 'consts': [], 'shared': [], 'main': gen.flatten(main), 'procs': []}


NFIXED = 5


def _job(job):
    from lib import rec, qb
    kind, payload = job
    if kind == 'fixed':
        prog = fixed_program(payload)
        text = gen.Unparser(prog).text()
        ast = gen.strip_for_tlc(prog)
    elif kind == 'shape':
        prog = program_of(payload['shapes'], payload['sub'])
        text = gen.Unparser(prog).text()
        ast = gen.strip_for_tlc(prog)
    else:
        prog, text, ast = gen.generate(payload['seed'], size=10, depth=3, wide=True)
    obs, fails, secs = [], [], {}
    for (O, g) in CFGS:
        r = rec.run_recorded(text, O, g)
        if r['st'] != 'ok':
            fails.append({'cfg': [O, g], 'st': r['st'], 'detail': r['detail']})
            continue
        sec = qb.split_sections(r['bytes'])
        secs[(O, g)] = [bytes(sec.get(i, b'')).hex() for i in (1, 2, 3)]
        for e in r['events']:
            e.pop('text', None)
        obs.append({'cfg': 'O%d%s' % (O, 'g' if g else ''), 'events': r['events'], 'outcome': r['outcome']})
    secdiff = []
    for O in (0, 1, 2):
        if (O, False) in secs and (O, True) in secs and secs[(O, False)] != secs[(O, True)]:
            secdiff.append(O)
    accept = {O: ((O, False) in secs, (O, True) in secs) for O in (0, 1, 2)}
    return {'text': text, 'ast': ast, 'obs': obs, 'fails': fails, 'secdiff': secdiff, 'accept': accept, 'kind': kind}


def run(ctx):
    work = tlc.scratch_dir('qbv-c08-')
    try:
        _run(ctx, work)
    finally:
        import shutil
        shutil.rmtree(work, ignore_errors=True)


def _run(ctx, work):
    rng = random.Random(ctx.seed)
    N = ctx.pick(3, 4)
    r = tlc.run_tlc('Shapes', SHAPES_CFG % N, workers=8, timeout=1700, heap='8g')
    if r.error:
        if r.invariant:
            ctx.violation('model-invariant', r.invariant, {'tlc': r.error[:2000]})
            return
        raise Machinery('Shapes: ' + r.error[:1200])
    shapes = [b['tree'] for b in r.printed]
    extra = []
    if ctx.quick():
        r4 = tlc.run_tlc('Shapes', SHAPES_CFG % 5, workers=1, simulate=250, depth=12, seed=ctx.seed, timeout=600)
        if r4.error:
            raise Machinery('Shapes simulate: ' + r4.error[:1200])
        extra = [b['tree'] for b in r4.printed]
    allshapes = shapes + extra
    rng.shuffle(allshapes)
    if ctx.quick():
        allshapes = allshapes[:640]        # the thorough tier runs every shape
    B = 12
    jobs = []
    for i in range(0, len(allshapes), B):
        jobs.append(('shape', {'shapes': allshapes[i:i + B], 'sub': (i // B) % 3 == 0}))
    for i in range(ctx.pick(25, 1200)):
        jobs.append(('gen', {'seed': ctx.seed * 100000 + 30000 + i}))
    for i in range(NFIXED):
        jobs.append(('fixed', i))
    res = par.pmap(_job, jobs, chunk=2)
    cases = []
    for rr in res:
        for O, (a0, a1) in rr['accept'].items():
            if a0 != a1:
                f = [x for x in rr['fails'] if x['cfg'][0] == int(O)][0]
                d = f['detail']
                trig = '%s@%s' % (d.get('type'), d.get('where')) if f['st'] == 'crash' else '%s:%s' % (f['st'], str(d.get('msg', ''))[:40])
                ctx.violation('accept-mismatch', trig, {'program': rr['text'], 'level': O, 'accepted_without_g': a0, 'accepted_with_g': a1, 'detail': d})
        if rr['fails'] and all(a0 == a1 for a0, a1 in rr['accept'].values()):
            f = rr['fails'][0]
            d = f['detail']
            trig = '%s@%s' % (d.get('type'), d.get('where')) if f['st'] == 'crash' else '%s:%s' % (f['st'], str(d.get('msg', ''))[:40])
            ctx.violation('rejected-or-crashed', trig, {'program': rr['text'], 'cfg': f['cfg'], 'detail': d})
        for O in rr['secdiff']:
            ctx.violation('sections-differ', 'O%d' % O, {'program': rr['text'], 'level': O})
        if rr['obs']:
            cases.append({'tid': len(cases), 'seed': 0, 'ast': rr['ast'], 'obs': rr['obs'], 'text': rr['text']})
    verdicts = c01.validate(work, cases)
    stats = {}
    for c, v in zip(cases, verdicts):
        vds = v['verd']
        by = {c['obs'][i]['cfg']: vds[i] for i in range(len(vds))}
        for oi, vd in enumerate(vds):
            stats[vd] = stats.get(vd, 0) + 1
            if vd in ('ok', 'oom', 'budget', 'impl-budget'):
                continue
            o = c['obs'][oi]
            other = by.get(o['cfg'][:-1] if o['cfg'].endswith('g') else o['cfg'] + 'g')
            pos = v['pos'][oi]
            ev = o['events'][pos - 1] if 0 < pos <= len(o['events']) else None
            ln = (ev or {}).get('ln') or o['outcome'].get('ln') or v['status'].get('ln') or 0
            trig = c01.stmt_at(c['ast'], ln) if ln else 'event%d' % pos
            clause = ('debug-differs:' if other in ('ok', 'oom') else '') + vd
            ctx.violation(clause, trig + '@' + o['cfg'], {'program': c['text'], 'cfg': o['cfg'], 'verdict': vd, 'pos': pos, 'observed_event': ev,
                                                          'observed_outcome': o['outcome'], 'spec_status': v['status'], 'all': by, 'line': ln})
    ctx.coverage.update({
        'states': r.distinct + sum(v['steps'] for v in verdicts), 'transitions': r.generated + sum(v['steps'] for v in verdicts),
        'traces_validated_against_impl': sum(len(c['obs']) for c in cases),
        'shapes_enumerated': len(shapes), 'shapes_simulated': len(extra), 'shape_nodes': N, 'programs': len(cases),
        'shapes_run': len(allshapes), 'verdicts': stats, 'exhaustive': not ctx.quick(),
        'exhaustive_bound': 'all statement shapes of <= %d nodes (Shapes.tla), each instantiated so that every branch runs' % N,
        'samples': [{'program': cases[0]['text']}] if cases else [],
    })


def replay(ctx, case):
    print(case.get('program'))
    print(json.dumps({k: v for k, v in case.items() if k != 'program'}, indent=1)[:3000])
    ctx.coverage.update({'evaluations': 1, 'distinct_nontrivial': 2, 'samples': [case.get('cfg')]})
