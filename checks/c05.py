"""C05  Static errors are rejected at compile time with a located diagnostic.

Faults.tla holds the catalogue of static rule violations (categories the compiler owes, and which
lines a diagnostic may point at) and derives from a site's routine and block stack whether a
construct is a violation there or legal (EXIT FOR inside FOR, ELSE inside an IF block, CASE inside
SELECT, EXIT SUB inside a SUB ...).  MC_Faults.tla enumerates fault x site x noise (indented blank
lines, comments, extra declarations before the fault) x level x debug setting, for the sites of a
fixed host program and for sites taken from generated valid programs (any routine, any block
nesting), and prints what is owed.  The harness builds each text, compiles it and records outcome,
category and line; Trace_Faults.tla gives the verdict: accepted / crashed / category / position /
no-position / valid-program-rejected.
"""
import json
import os
import random
import re

from lib import tlc, par, gen, qb
from lib.common import Machinery

LEVEL = 'model_checking'

MC_CFG = '''SPECIFICATION Spec
CONSTANT Levels = {%s}
CONSTANT Debugs = {%s}
INVARIANT NonVacuous
INVARIANT Report
CHECK_DEADLOCK FALSE
'''

PRELUDE = '''DECLARE SUB zsubp (n%)
DECLARE FUNCTION zfn% (a%)
TYPE zrec
  fa AS INTEGER
END TYPE
DIM SHARED zarr(1 TO 3) AS INTEGER
DIM SHARED zr AS zrec
CONST zkc$ = "k"
'''
POSTLUDE = '''SUB zsubp (n%)
  n% = n% + 1
END SUB
FUNCTION zfn% (a%)
  zt$ = zkc$ + zkc$
  zfn% = a%
END FUNCTION
'''

HOST = PRELUDE + '''zx% = 1
zs$ = "q"
CONST zg = "bare"
zs$ = zg + "!"
IF zg = "bare" THEN zx% = LEN(zg) - 3
'@main_top
IF zx% = 1 THEN
  '@main_if
END IF
FOR i% = 1 TO 2
  '@main_for
NEXT i%
DO
  '@main_do
LOOP UNTIL zx% = 1
SELECT CASE zx%
CASE 1
  '@main_select
END SELECT
FOR j% = 1 TO 2
  IF j% = 1 THEN
    DO
      '@main_nest
    LOOP WHILE zx% = 0
  END IF
NEXT j%
PRINT "end"
END
SUB hsub (n%)
  '@sub_top
  WHILE n% < 0
    '@sub_while
  WEND
END SUB
FUNCTION hfn% (a%)
  '@fn_top
  FOR k% = 1 TO 2
    '@fn_for
  NEXT k%
  hfn% = a%
END FUNCTION
''' + POSTLUDE

FAULTS = {
    'assign-str-to-num': ['zx% = "a"'],
    'assign-num-to-str': ['zs$ = 1'],
    'op-mismatch': ['zx% = 1 + "a"'],
    'cond-string-if': ['IF "a" THEN', 'END IF'],
    'cond-string-ifline': ['IF "a" THEN zx% = 2'],
    'cond-string-while': ['WHILE "a"', 'WEND'],
    'cond-string-until': ['DO', 'LOOP UNTIL "a"'],
    'cond-string-elseif': ['IF zx% = 5 THEN', 'ELSEIF "a" THEN', 'END IF'],
    'case-mismatch': ['SELECT CASE zx%', 'CASE "a"', 'END SELECT'],
    'case-range-mismatch': ['SELECT CASE zx%', 'CASE 1 TO "z"', 'END SELECT'],
    'for-string-bound': ['FOR zq% = 1 TO "a"', 'NEXT zq%'],
    'arg-mismatch': ['zsubp "a"'],
    # a constant that is used again, validly, further down (its uses must not share one position)
    'const-arg-mismatch': ['zx% = zfn%(zkc$)'],
    'const-case-mismatch': ['SELECT CASE zx%', 'CASE zkc$', 'END SELECT'],
    'const-cond-string': ['IF zkc$ THEN', 'END IF'],
    'next-other-suffix': ['FOR zq% = 1 TO 2', 'NEXT zq&'],
    'next-other-var': ['FOR zq% = 1 TO 2', 'NEXT zother%'],
    'arg-mismatch-fn': ['zx% = zfn%("a")'],
    'subscript-string': ['zarr("a") = 1'],
    'undef-label': ['GOTO znolabel'],
    'undef-label-gosub': ['GOSUB znolabel'],
    'dup-label': ['zdup:', 'zdup:'],
    'dup-dim': ['DIM zdd AS INTEGER', 'DIM zdd AS INTEGER'],
    'dup-const': ['CONST zcc = 1', 'CONST zcc = 2'],
    'argcount': ['zsubp 1, 2'],
    'argcount-fn': ['zx% = zfn%(1, 2)'],
    'argcount-none': ['zsubp'],
    'rank': ['zarr(1, 2) = 1'],
    'rank-read': ['zx% = zarr(1, 2)'],
    'undef-type': ['DIM zq AS nosuchtype'],
    'undef-field': ['zr.nofield = 1'],
    'undef-field-read': ['zx% = zr.nofield'],
    'undef-proc': ['CALL znosuch(1)'],
    'exit-for': ['EXIT FOR'],
    'exit-do': ['EXIT DO'],
    'exit-sub': ['EXIT SUB'],
    'exit-function': ['EXIT FUNCTION'],
    'stray-else': ['ELSE'],
    'stray-elseif': ['ELSEIF zx% = 1 THEN'],
    'second-else': ['IF zx% = 1 THEN', 'ELSE', 'ELSE', 'END IF'],
    'stray-case': ['CASE 1'],
    'stray-endif': ['END IF'],
    'stray-next': ['NEXT'],
    'stray-wend': ['WEND'],
    'stray-loop': ['LOOP'],
    'stray-endselect': ['END SELECT'],
    'unclosed-for': ['FOR zk% = 1 TO 2'],
    'unclosed-if': ['IF zx% = 1 THEN'],
    'unclosed-do': ['DO'],
    'unclosed-while': ['WHILE zx% = 1'],
    'unclosed-select': ['SELECT CASE zx%'],
    'illegal-literal': ['zx% = 99999999999'],
    'illegal-literal-exp': ['zy! = 1E999'],
    'illegal-literal-int': ['zx% = 40000%'],
    'nonconst-const': ['CONST znc = zx% + 1'],
    'none': ['zx% = zx%'],
}
# first and last line (0-based within the injected lines) a diagnostic may point at under the "pair" rule
PAIR = {'const-case-mismatch': (1, 1), 'const-cond-string': (0, 0), 'next-other-suffix': (0, 1), 'next-other-var': (0, 1),
        'cond-string-if': (0, 0), 'cond-string-while': (0, 0), 'cond-string-until': (1, 1), 'cond-string-elseif': (1, 1),
        'case-mismatch': (1, 1), 'case-range-mismatch': (1, 1), 'for-string-bound': (0, 0)}

FAULT_RULE_SPAN = {f: True for f in ('second-else', 'stray-endif', 'stray-next', 'stray-wend', 'stray-loop', 'stray-endselect', 'unclosed-for',
                                      'unclosed-if', 'unclosed-do', 'unclosed-while', 'unclosed-select')}
CLOSERS = ('END IF', 'NEXT', 'LOOP', 'WEND', 'END SELECT', 'END SUB', 'END FUNCTION')

FIXED_SITES = {
    'main_top': ('main', []), 'main_if': ('main', ['if']), 'main_for': ('main', ['for']), 'main_do': ('main', ['do']),
    'main_select': ('main', ['select']), 'main_nest': ('main', ['for', 'if', 'do']), 'sub_top': ('sub', []),
    'sub_while': ('sub', ['while']), 'fn_top': ('function', []), 'fn_for': ('function', ['for']),
}


def gen_host(seed):
    """a generated valid program with the declarations the faults refer to, and its injection sites"""
    prog, text, ast, li = gen.generate_info(seed, size=9, depth=3, wide=True)
    body = text.rstrip('\n').split('\n')
    pre = PRELUDE.rstrip('\n').split('\n')
    off = len(pre)
    lines = pre + body + POSTLUDE.rstrip('\n').split('\n')
    sites = []
    routine = 'main'
    blockkind = {'if': 'if', 'elseif': 'if', 'else': 'if', 'for': 'for', 'do': 'do', 'while': 'while', 'select': 'select', 'case': 'select',
                 'caseelse': 'select'}
    in_type = False
    for i, line in enumerate(body):
        info = li[i] if i < len(li) else None
        if info is None:
            continue
        kinds = info['kinds']
        k0 = kinds[0] if kinds else ''
        if k0 in ('sub', 'function'):
            routine = k0
            continue
        if k0 in ('endsub', 'endfunction'):
            # a site at the end of the routine body
            pass
        if k0 == 'type':
            in_type = True
        if k0 == 'endtype':
            in_type = False
            continue
        if in_type or k0 in ('decl', 'type', 'nop', '') or not line.strip():
            continue
        if k0 in ('case', 'caseelse') and i > 0 and li[i - 1]['kinds'][:1] == ['select']:
            continue
        if k0 in ('case', 'caseelse', 'else', 'elseif'):
            continue          # before an arm switch: the enclosing arm is the previous one; keep sites simple
        chain = []
        p = info['parent']
        ok = True
        while p:
            pk = li[p - 1]['kinds'][0] if li[p - 1]['kinds'] else ''
            if pk in ('sub', 'function'):
                break
            if pk not in blockkind:
                ok = False
                break
            chain.append(blockkind[pk])
            p = li[p - 1]['parent']
        if not ok:
            continue
        chain.reverse()
        # collapse select/select duplicates
        blocks = []
        for b in chain:
            if not (blocks and blocks[-1] == b == 'select'):
                blocks.append(b)
        indent = len(line) - len(line.lstrip())
        # may an ELSE / ELSEIF still be written here?  (innermost block an IF block, the site not in its ELSE arm,
        # and for ELSE: no ELSEIF or ELSE arm further down)
        ce = ci = cs = False
        p = info['parent']
        if blocks and blocks[-1] == 'if' and p:
            pk = li[p - 1]['kinds'][0]
            if pk in ('if', 'elseif'):
                header = p if pk == 'if' else li[p - 1]['parent']
                arms = [(j, li[j]['kinds'][0]) for j in range(len(li)) if li[j]['kinds'] and li[j]['parent'] == header
                        and li[j]['kinds'][0] in ('elseif', 'else')]
                if k0 == 'endif':
                    # in front of END IF: the last arm of the block
                    ci = ce = not any(k == 'else' for _, k in arms)
                else:
                    ci = True
                    ce = not [1 for j, k in arms if j >= i]
        if blocks and blocks[-1] == 'select' and p:
            # a CASE 1 clause is only well typed under a numeric selector; after CASE ELSE it is not tried
            q = p
            while q and li[q - 1]['kinds'][0] != 'select':
                q = li[q - 1]['parent']
            hdr = body[q - 1] if q else ''
            in_else = li[p - 1]['kinds'][0] == 'caseelse' or (k0 == 'endselect' and any(
                li[j]['kinds'] and li[j]['kinds'][0] == 'caseelse' and li[j]['parent'] == q for j in range(len(li))))
            cs = bool(q) and '$' not in hdr and '"' not in hdr and not in_else
        sites.append({'routine': routine, 'blocks': blocks, 'before': off + i + 1, 'indent': indent, 'ce': ce, 'ci': ci, 'cs': cs})
        if k0 in ('endsub', 'endfunction'):
            routine = 'main'
    return lines, sites, text


def fixed_host():
    lines = HOST.rstrip('\n').split('\n')
    sites = {}
    for i, line in enumerate(lines):
        m = re.match(r"^(\s*)'@(\w+)$", line)
        if m:
            r, b = FIXED_SITES[m.group(2)]
            sites[m.group(2)] = {'routine': r, 'blocks': b, 'before': i + 1, 'indent': len(m.group(1)), 'replace': True}
    return lines, sites


NOISE = {
    'none': [],
    'blank-lines': ['                    ', '\t\t\t      ', '          ', '                              ', '   \t   ', '                '],
    'comments': ["' a remark: END IF NEXT \"", "REM another remark : x = \"a\"", "'"],
    'declarations': ['DIM zn1 AS LONG', 'CONST zn2 = 5', 'DIM zn3(1 TO 2, 3) AS STRING', 'zn1 = zn2'],
}


def build(lines, site, fault, noise):
    """the text with the fault injected; returns (text, inj1, inj2, endline)"""
    fl = FAULTS[fault]
    ind = ' ' * site['indent']
    nz = NOISE[noise]
    before = site['before'] - 1          # 0-based index of the line the fault goes in front of
    head = lines[:before]
    tail = lines[before + 1:] if site.get('replace') else lines[before:]
    inj = [ind + x for x in fl]
    noise_lines = [(ind + x) if x.strip() and not x.isspace() else x for x in nz]
    out = head + noise_lines + inj + tail
    first = len(head) + len(noise_lines) + 1
    inj1, inj2 = first, first + len(fl) - 1
    if fault in PAIR:
        a, b = PAIR[fault]
        inj1, inj2 = first + a, first + b
    # the extent of the routine the fault is in: a block mismatch may be discovered at any terminator up to
    # the routine's end, and which of two nested blocks of one kind is "the unclosed one" is not defined
    rstart, endline = 1, len(out)
    starts = [j for j, l in enumerate(out) if re.match(r'^(SUB|FUNCTION)\b', l.strip(), re.I)]
    ends = [j for j, l in enumerate(out) if re.match(r'^END (SUB|FUNCTION)\b', l.strip(), re.I)]
    here = first - 1
    inside = [(a, b) for a, b in zip(starts, ends) if a <= here <= b]
    if inside:
        rstart, endline = inside[0][0] + 1, inside[0][1] + 1
    elif starts:
        endline = starts[0]
    if FAULT_RULE_SPAN.get(fault) or (fault in ('stray-else', 'stray-elseif') and site['blocks'] and site['blocks'][-1] == 'if'):
        inj1 = rstart
    return '\n'.join(out) + '\n', inj1, inj2, endline


def _job(job):
    oid, lines, site, sc = job
    text, inj1, inj2, endline = build(lines, site, sc['fault'], sc['noise'])
    r = qb.compile_text(text, sc['O'], sc['g'], want_listing=True)
    o = {'id': oid, 'fault': sc['fault'], 'site': sc['site'], 'st': r['st'], 'cat': '', 'line': 0, 'inj1': inj1, 'inj2': inj2, 'endline': endline}
    if r['st'] in ('syntax', 'compile'):
        o['cat'] = 'SYNTAX' if r['st'] == 'syntax' else r['code']
        loc = r.get('loc')
        if isinstance(loc, int) and 0 <= loc <= len(text):
            o['line'] = text[:loc].count('\n') + 1
        o['msg'] = r.get('msg', '')[:80]
    elif r['st'] == 'crash':
        o['msg'] = '%s@%s:%s' % (r.get('type'), r.get('where'), r.get('stage'))
    o['text'] = text if True else ''
    o['sc'] = sc
    return o


def run(ctx):
    work = tlc.scratch_dir('qbv-c05-')
    try:
        _run(ctx, work)
    finally:
        import shutil
        shutil.rmtree(work, ignore_errors=True)


def _run(ctx, work):
    rng = random.Random(ctx.seed)
    levels = ctx.pick('0, 2', '0, 1, 2')
    r = tlc.run_tlc('MC_Faults', MC_CFG % (levels, 'FALSE, TRUE'), workers=4, timeout=1700, heap='4g')
    if r.error or r.invariant:
        raise Machinery('MC_Faults: %s %s' % (r.invariant, (r.error or '')[:800]))
    scen = [x for x in r.printed]
    flines, fsites = fixed_host()
    jobs = []
    oid = 0
    expect = {}
    # fixed host: every scenario (quick: the noise dimension is crossed with a rotating level/debug choice)
    for x in scen:
        sc = x['sc']
        if ctx.quick() and sc['noise'] != 'none' and (hash_of(sc) % 3):
            continue
        jobs.append((oid, flines, fsites[sc['site']], sc))
        expect[oid] = x
        oid += 1
    n_fixed = len(jobs)
    # generated hosts: the same catalogue at sites of valid generated programs
    ghosts = []
    for i in range(ctx.pick(10, 60)):
        lines, sites, text = gen_host(ctx.seed * 100000 + 50000 + i)
        if sites:
            ghosts.append((lines, sites, text))
    extra = []
    for hi, (lines, sites, text) in enumerate(ghosts):
        rng.shuffle(sites)
        for si, s in enumerate(sites[:ctx.pick(4, 8)]):
            extra.append({'name': 'g%d_%d' % (hi, si), 'routine': s['routine'], 'blocks': s['blocks'], 'ce': s['ce'], 'ci': s['ci'], 'cs': s['cs'], '_host': hi, '_site': s})
    names = sorted(FAULTS)
    gobs = []
    for e in extra:
        for f in names:
            if ctx.quick() and (hash_of([e['name'], f]) % 4):
                continue
            if f == 'stray-case' and e['blocks'] and e['blocks'][-1] == 'select' and not e['cs']:
                continue      # `CASE 1` under a string selector is a type mismatch, after CASE ELSE it is a matter of taste
            sc = {'fault': f, 'site': e['name'], 'noise': rng.choice(sorted(NOISE)), 'O': rng.choice([0, 1, 2]), 'g': rng.random() < 0.5}
            jobs.append((oid, ghosts[e['_host']][0], e['_site'], sc))
            oid += 1
    obs = par.pmap(_job, jobs, chunk=8)
    # verdicts (the generated hosts' sites are passed as extra sites)
    spath = os.path.join(work, 'sites.json')
    tlc.write_json(spath, [{'name': e['name'], 'routine': e['routine'], 'blocks': e['blocks'], 'ce': e['ce'], 'ci': e['ci'], 'cs': e['cs']} for e in extra])
    verd = {}
    SH = 6000
    for si in range(0, len(obs), SH):
        opath = os.path.join(work, 'obs-%d.json' % si)
        tlc.write_json(opath, [{k: o[k] for k in ('id', 'fault', 'site', 'st', 'cat', 'line', 'inj1', 'inj2', 'endline')} for o in obs[si:si + SH]])
        tr = tlc.run_tlc('Trace_Faults', 'SPECIFICATION Spec\nCHECK_DEADLOCK FALSE\n', env={'OBS': opath, 'SITES': spath}, workers=1, timeout=1700, heap='4g')
        if tr.error:
            raise Machinery('Trace_Faults: ' + tr.error[:1200])
        for x in tr.printed:
            verd[x['id']] = x['v']
        os.unlink(opath)
    if len(verd) != len(obs):
        raise Machinery('Trace_Faults: %d verdicts for %d observations' % (len(verd), len(obs)))
    stats = {}
    sitemap = {e['name']: e for e in extra}
    for o in obs:
        v = verd[o['id']]
        stats[v] = stats.get(v, 0) + 1
        if v == 'ok':
            continue
        site = o['site']
        if site in sitemap:
            e = sitemap[site]
            sname = '%s[%s]' % (e['routine'], ','.join(e['blocks']))
        else:
            sname = site
        trig = o['fault']
        if v == 'crashed':
            trig += ':' + o.get('msg', '')
        elif v == 'category':
            trig += ':' + o['cat']
        elif v == 'position':
            if o['sc']['noise'] != 'none':
                trig += ':' + o['sc']['noise']
        elif v in ('accepted', 'valid-program-rejected') and (o['fault'].startswith(('exit-', 'stray-'))):
            trig += '@' + sname.split('[')[0].split('_')[0]
        ctx.violation(v, trig, {'scenario': o['sc'], 'site': sname, 'program': o['text'], 'outcome': {k: o.get(k) for k in ('st', 'cat', 'line', 'msg')},
                                'injected_lines': [o['inj1'], o['inj2']], 'endline': o['endline']})
    # binding demonstration: a diagnostic moved by one line / another category must be rejected
    demo = []
    for o in obs:
        if verd[o['id']] == 'ok' and o['st'] == 'compile' and o['inj1'] == o['inj2'] and o['site'] not in sitemap and len(demo) < 6:
            d = {k: o[k] for k in ('id', 'fault', 'site', 'st', 'cat', 'line', 'inj1', 'inj2', 'endline')}
            d['id'] = len(demo)
            if len(demo) % 2:
                d['line'] = d['line'] - 1
            else:
                d['cat'] = 'DUPLICATE_LABEL' if d['cat'] != 'DUPLICATE_LABEL' else 'TYPE_MISMATCH'
            demo.append(d)
    if demo:
        opath = os.path.join(work, 'demo.json')
        tlc.write_json(opath, demo)
        tr = tlc.run_tlc('Trace_Faults', 'SPECIFICATION Spec\nCHECK_DEADLOCK FALSE\n', env={'OBS': opath, 'SITES': spath}, workers=1, timeout=600)
        bad = [x for x in tr.printed if x['v'] == 'ok']
        if tr.error or bad or len(tr.printed) != len(demo):
            raise Machinery('binding demonstration failed: %r %s' % (bad, (tr.error or '')[:300]))
    ctx.coverage.update({
        'states': r.distinct, 'transitions': r.generated, 'traces_validated_against_impl': len(obs), 'scenarios_enumerated': len(scen),
        'fixed_host_scenarios_compiled': n_fixed, 'generated_hosts': len(ghosts), 'generated_host_sites': len(extra),
        'generated_host_scenarios_compiled': len(obs) - n_fixed, 'fault_classes': len(FAULTS) - 1, 'verdicts': stats,
        'binding_demo_rejected': len(demo),
        'samples': [obs[0]['sc']] if obs else [],
    })


def hash_of(x):
    import zlib
    return zlib.crc32(json.dumps(x, sort_keys=True).encode())


def replay(ctx, case):
    print(case.get('program'))
    print(json.dumps({k: v for k, v in case.items() if k != 'program'}, indent=1)[:2000])
    sc = case['scenario']
    r = qb.compile_text(case['program'], sc['O'], sc['g'])
    print({k: v for k, v in r.items() if k not in ('code', 'bytes')})
    ctx.coverage.update({'evaluations': 1, 'samples': [sc]})
