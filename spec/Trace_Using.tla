----------------------------- MODULE Trace_Using -----------------------------
(* Trace validation for PRINT USING.  A case: the format string, the values   *)
(* (numbers by exact decimal expansion), whether the statement ended in a     *)
(* separator, and the text the terminal received.  The parts of the format    *)
(* are matched against the text left to right; because a field may have more  *)
(* than one admissible text, the state is the SET of text positions reachable *)
(* so far.  The verdict names the kind of the first part nothing matched.     *)
EXTENDS Using, TLC, Json, IOUtils
Cases == JsonDeserialize(IOEnv.CASES)

VARIABLES cid, k, vi, pos, verdict
vars == <<cid, k, vi, pos, verdict>>
C == Cases[cid]
Parts == ScanFormat(C.fmt).parts
Obs == C.text

Matches(t, p) == p + Len(t) <= Len(Obs) /\ \A i \in 1..Len(t) : Obs[p + i] = t[i]

Init == cid \in 1..Len(Cases) /\ k = 1 /\ vi = 1 /\ pos = {0} /\ verdict = "run"

Stop(v) == verdict' = v /\ UNCHANGED <<cid, k, vi, pos>>

Step ==
  /\ verdict = "run"
  /\ IF ScanFormat(C.fmt).amb THEN Stop("amb")
     ELSE IF NFields(Parts) # Len(C.vals) THEN Stop("arity")
     ELSE IF k > Len(Parts) THEN
        \* end of the statement: line break unless it ended in a separator
        LET tail == IF C.sep THEN <<>> ELSE <<13, 10>>
        IN IF \E p \in pos : Matches(tail, p) /\ p + Len(tail) = Len(Obs) THEN Stop("ok")
           ELSE Stop("line-end")
     ELSE LET part == Parts[k]
              v == IF IsField(part) THEN C.vals[vi] ELSE [k |-> "none"]
              ts == FieldTexts(part, v)
              nxt == {p + Len(t) : p \in pos, t \in {u \in ts : \E q \in pos : Matches(u, q)}}
              good == {pt \in (pos \X ts) : Matches(pt[2], pt[1])}
              np == {pt[1] + Len(pt[2]) : pt \in good}
          IN IF ts = {} THEN Stop("value-kind")
             ELSE IF np = {} THEN Stop(part[1] \o "-field")
             ELSE /\ pos' = np /\ k' = k + 1
                  /\ vi' = IF IsField(part) THEN vi + 1 ELSE vi
                  /\ UNCHANGED <<cid, verdict>>

Spec == Init /\ [][Step]_vars
Report == verdict # "run" => PrintT(ToJson([tid |-> C.tid, verdict |-> verdict, l |-> k]))
=============================================================================
