"""Child process of the C20 check: serves a history of compile/run requests in ONE process
and prints one JSON line with a result digest per request.  Reads the job from stdin."""
import sys, os, json, hashlib, io, contextlib

job = json.load(sys.stdin)
if job.get('fake_time'):
    import time as _t, datetime as _d
    base = float(job['fake_time'])
    _t.time = lambda: base
    _t.time_ns = lambda: int(base * 1e9)

    class _DT(_d.datetime):
        @classmethod
        def now(cls, tz=None):
            return cls.fromtimestamp(base, tz)

        @classmethod
        def utcnow(cls):
            return cls.utcfromtimestamp(base)
    _d.datetime = _DT
if job.get('cwd'):
    os.chdir(job['cwd'])
sys.path.insert(0, job['verif'])
os.environ['QBEE_REPO'] = job['repo']
from lib import qb  # noqa: E402


def digest(*parts):
    h = hashlib.sha1()
    for p in parts:
        if isinstance(p, str):
            p = p.encode('utf-8', 'replace')
        h.update(len(p).to_bytes(4, 'big'))
        h.update(p)
    return h.hexdigest()[:16]


out = []
for req in job['history']:
    text = job['programs'][req['p']]
    c = qb.compile_text(text, req['O'], req['g'], want_listing=True)
    if c['st'] != 'ok':
        res = 'E:' + digest(json.dumps({k: v for k, v in c.items() if k not in ('code', 'bytes', 'listing')}, sort_keys=True))
        out.append({'res': res, 'detail': c.get('st')})
        continue
    sec = qb.split_sections(c['bytes'])
    if req['k'] == 'compile':
        res = 'C:' + digest(*(sec.get(i, b'') for i in (1, 2, 3, 4)), c['listing'])
        out.append({'res': res, 'detail': 'ok', 'sec': {str(i): digest(sec.get(i, b'')) for i in (1, 2, 3, 4)},
                    'lst': digest(c['listing'])})
    else:
        mod = qb.load_module(c['bytes'])
        rec, o, cpu = qb.run_module(mod, job['scripts'][req['s']], budget=200000)
        o = {k: v for k, v in o.items() if k != 'stdout'}
        res = 'R:' + digest(repr(rec.events), json.dumps(o, sort_keys=True))
        out.append({'res': res, 'detail': o.get('how'), 'ticks': o.get('ticks')})
print('RESULT ' + json.dumps(out))
