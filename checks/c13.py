"""C13  Debugger expression evaluation agrees with the running program.

The oracle is QB.tla: the value of an expression at a statement boundary is what Eval gives in
the specification's state there.  Generated programs (records, arrays, CONSTs, STATIC and SHARED
variables, by-reference parameters, recursion) are compiled with -g and driven through qvm/dbg.py
with a line breakpoint on every PRINT statement that stands alone on its line.  At each stop the
harness asks the debugger (`print <expr>`) for every item of that PRINT statement that contains
no call, then lets the statement run.  The recorded event trace of the session, with the values
of those items REPLACED by what the debugger answered, is validated by Trace_QB.tla: a debugger
value that differs from the specification's value is rejected with verdict `value` exactly like
a wrong value printed by the program.  The harness also checks at every stop that evaluation
leaves the machine state digest unchanged, that unknown names and out-of-range subscripts are
reported as evaluation errors, that no host exception escapes `print` (also after the program
has finished), and that the session's device events equal those of a free run.
"""
import contextlib
import io
import json
import os
import random
from fractions import Fraction

from lib import tlc, par, gen, qb, dbgdrive, rec as recmod
from lib.common import Machinery
from checks import c01

LEVEL = 'model_checking'


def is_safe(e):
    k = e['k']
    if k == 'txt':
        return True
    if k in ('num', 'str', 'cst'):
        return True
    if k == 'lv':
        return all(is_safe(x) for x in e['ix'])
    if k == 'par' or k == 'un':
        return is_safe(e['a'])
    if k == 'bin':
        return is_safe(e['l']) and is_safe(e['r'])
    return False


def has_call(e):
    if isinstance(e, dict):
        if e.get('k') in ('call',):
            return True
        return any(has_call(v) for v in e.values())
    if isinstance(e, list):
        return any(has_call(v) for v in e)
    return False


def arrays_in(e, acc):
    if isinstance(e, dict):
        if e.get('k') == 'lv' and e['ix'] and not e['fl']:
            acc.append(e)
        for v in e.values():
            arrays_in(v, acc)
    elif isinstance(e, list):
        for v in e:
            arrays_in(v, acc)


def augment(prog):
    """adds to every call-free PRINT statement items whose values are not dyadic (thirds, sevenths, mixed
    INTEGER/float arithmetic): outside the exact-float window of QBValues.tla, decided by Trace_DebugEval.tla"""
    def num(v):
        return {'k': 'num', 't': 'I', 'v': v}

    def walk(b):
        for s in b:
            if s['k'] == 'print' and not s.get('using'):
                es = [it['e'] for it in s['items'] if it['k'] == 'e']
                if es and not any(has_call(x) for x in es):
                    lvs = [e for e in es if e['k'] == 'lv' and e.get('t') in ('I', 'L', 'S', 'D')][:2]
                    extra = []
                    for e in lvs:
                        pe = {'k': 'par', 'a': e}
                        extra.append({'k': 'bin', 'o': 'div', 'l': pe, 'r': num(3), 't': 'S' if e['t'] in 'IS' else 'D'})
                        extra.append({'k': 'bin', 'o': 'add', 'l': pe, 'r': {'k': 'par', 'a': {'k': 'bin', 'o': 'div', 'l': num(1), 'r': num(7), 't': 'S'}},
                                      't': 'S' if e['t'] in 'IS' else 'D'})
                    if not lvs:
                        extra.append({'k': 'bin', 'o': 'add', 'l': num(2), 'r': {'k': 'par', 'a': {'k': 'bin', 'o': 'div', 'l': num(1), 'r': num(3), 't': 'S'}}, 't': 'S'})
                    for x in extra:
                        s['items'] += [{'k': 'sep', 's': ';'}, {'k': 'e', 'e': x}] if s['items'] and s['items'][-1]['k'] == 'e' else [{'k': 'e', 'e': x}]
            for key in ('body', 'els'):
                if isinstance(s.get(key), list):
                    walk(s[key])
            for a in s.get('arms', []):
                walk(a['body'])
            for c in s.get('cases', []):
                walk(c['body'])
    walk(prog['main'])
    for p in prog['procs']:
        walk(p['body'])


def norm_answer(text, kind):
    """exact text of the debugger's answer in the shape of the program's typed value (None: not of that shape)"""
    t = text[:-1] if text.endswith('\n') else text
    if kind == 'T':
        return t
    try:
        if kind in 'IL':
            q = Fraction(t)
            return str(q.numerator) if q.denominator == 1 else str(q)
        return repr(float(t) + 0.0) if float(t) != 0 else '0.0'      # -0.0 and 0.0 are the same value
    except (ValueError, ZeroDivisionError):
        return None


def probes_of(prog, lineinfo):
    """line -> list of item expressions (None for items not to be asked)"""
    out = {}

    def walk(b):
        for s in b:
            if s['k'] == 'print' and not s.get('using') and s.get('ln'):
                ln = s['ln']
                kinds = lineinfo[ln - 1]['kinds'] if ln - 1 < len(lineinfo) else None
                if kinds == ['print']:
                    es = [it['e'] for it in s['items'] if it['k'] == 'e']
                    if not any(has_call(x) for x in es):
                        out[ln] = es
            for key in ('body', 'els'):
                if isinstance(s.get(key), list):
                    walk(s[key])
            for a in s.get('arms', []):
                walk(a['body'])
            for c in s.get('cases', []):
                walk(c['body'])
    walk(prog['main'])
    for p in prog['procs']:
        walk(p['body'])
    return out


def dbg_value(text, observed):
    """debugger answer -> value triple in the shape of the observed item (kind from the program)"""
    kind = observed['v'][0]
    t = text
    if t.endswith('\n'):
        t = t[:-1]
    if kind == 'T':
        return {'v': ['T', [ord(c) if ord(c) < 256 else 63 for c in t], 0], 'big': False}
    try:
        if kind in 'IL':
            q = Fraction(t)
            if q.denominator != 1 or abs(q.numerator) >= 2 ** 31:
                return None
            return {'v': [kind, int(q), 0], 'big': False}
        x = float(t)
    except (ValueError, ZeroDivisionError):
        return None
    return recmod.py_value(x, 'SINGLE' if kind == 'S' else 'DOUBLE')


FIXED = {
    'storage-classes': '''DECLARE SUB cnt (d%, w AS LONG)
DECLARE SUB shadow (g%, top!)
DIM SHARED g%
DIM SHARED ga(2) AS LONG
CONST k = 5
CONST ks$ = "konst"
g% = 9
ga(1) = 77
top! = 1.25
q& = 4
PRINT g%; ga(1); k; ks$; top!; top! / 3; q&
cnt 2, q&
cnt 3, q&
PRINT g%; q&; top! * k
shadow 42, 0.5
PRINT g%; top!
END
SUB shadow (g%, top!)
  PRINT g%; top!; g% + top!; k
  g% = g% + 1
  PRINT g%
END SUB
SUB cnt (d%, w AS LONG)
  STATIC n%
  STATIC m AS LONG
  STATIC sa(1 TO 2) AS INTEGER
  CONST lk = 8
  DIM lc(1 TO 2) AS STRING
  lc(2) = "zz"
  tmp% = d% * 2
  n% = n% + d%
  m = m + 1
  sa(2) = sa(2) + 10
  w = w + n%
  PRINT n%; m; g%; k; lk; d%; w; ga(1); lc(2); sa(2); n% + m * lk; w / 7
  g% = g% + 1
END SUB
''',
    'records': '''TYPE inner
  a AS INTEGER
  b AS DOUBLE
END TYPE
TYPE outer
  id AS LONG
  nm AS STRING
  inn AS inner
  z AS SINGLE
END TYPE
DECLARE SUB show (p AS outer, q AS inner, n%)
DIM r AS outer
DIM rs(1 TO 3) AS outer
r.id = 70000
r.nm = "rec"
r.inn.a = 7
r.inn.b = 2.5
r.z = 1.5
rs(2).id = 5
rs(2).inn.b = 0.75
rs(3).nm = "three"
PRINT r.id; r.nm; r.inn.a; r.inn.b; r.z; rs(2).id; rs(2).inn.b; rs(3).nm; r.inn.a * r.z
show r, r.inn, 1
show rs(2), rs(2).inn, 2
PRINT r.inn.a; rs(2).inn.a
END
SUB show (p AS outer, q AS inner, n%)
  DIM lr AS outer
  lr.id = n% * 10
  lr.inn.a = n% + 100
  q.a = q.a + 1
  PRINT p.id; p.nm; p.inn.a; p.inn.b; p.z; q.a; q.b; lr.id; lr.inn.a; n%; p.z + q.b / 3
END SUB
''',
    'recursion-arrays': '''DECLARE FUNCTION fact& (n%)
DECLARE SUB fill (a() AS INTEGER, lo%, hi%)
DECLARE FUNCTION total% (a() AS INTEGER)
DIM grid(1 TO 2, -1 TO 1) AS INTEGER
DIM v(5 TO 8) AS INTEGER
grid(2, -1) = 21
grid(1, 1) = 11
fill v(), 5, 8
h! = 6.5
PRINT grid(2, -1); grid(1, 1); v(5); v(8); v(5.5); v(6.5); v(h!); v(h! + 1); grid(1.5, -.5); v(h! - 1.5 + .5)
tt% = total%(v())
PRINT tt%; v(6) + tt%
f& = fact&(4)
PRINT f&; grid(2, 0)
hi% = 4
DIM dyn(2 TO hi%) AS LONG
dyn(3) = 33
PRINT dyn(3); dyn(2)
END
FUNCTION fact& (n%)
  depth% = n%
  IF n% <= 1 THEN
    fact& = 1
    PRINT n%; depth%
  ELSE
    sub1& = fact&(n% - 1)
    PRINT n%; depth%; sub1&; n% * sub1&
    fact& = n% * sub1&
  END IF
END FUNCTION
SUB fill (a() AS INTEGER, lo%, hi%)
  FOR i% = lo% TO hi%
    a(i%) = i% * 2
    PRINT i%; a(i%); a(lo%); lo%; hi%
  NEXT i%
END SUB
FUNCTION total% (a() AS INTEGER)
  t% = 0
  FOR j% = 5 TO 8
    t% = t% + a(j%)
  NEXT j%
  PRINT t%; a(6)
  total% = t%
END FUNCTION
''',
    'deftypes': '''DEFINT I-K
DEFSTR S
DEFDBL D
DECLARE SUB part (iv, sv, dv)
i = 5
j = i * 3
sname = "deft"
dval = 1 / 3
plain = 2.5
PRINT i; j; sname; dval; plain; i / j; dval * 3
part i, sname, dval
PRINT i; sname
END
SUB part (iv, sv, dv)
  kloc = iv + 1
  sloc = sv + "!"
  PRINT iv; sv; dv; kloc; sloc; dv + kloc
  iv = iv + 10
END SUB
''',
}


# procedure headers reached by `step` from the call statement that follows a PRINT line:
# (PRINT line, header line, names local to the callee, names of the caller printed on the PRINT line)
HEADERS = {
    'storage-classes': [('PRINT g%; ga(1); k; ks$', 'SUB cnt', ['tmp%', 'lk'], ['top!', 'q&'])],
    'records': [('PRINT r.id; r.nm', 'SUB show', ['lr.id', 'n%'], ['r.id', 'r.z'])],
    'deftypes': [('PRINT i; j; sname', 'SUB part', ['kloc', 'sloc', 'iv'], ['j', 'plain'])],
}


def _line_of(text, prefix):
    for ln, line in enumerate(text.split('\n'), 1):
        if line.strip().startswith(prefix):
            return ln
    raise Machinery('no line starting with %r' % prefix)


def header_session(name, O, module, text):
    """probes asked while stopped on a procedure header"""
    from qvm.machine import QvmMachine
    from qvm.dbg import Cmd
    out = []
    for (pp, hp, callee, caller) in HEADERS.get(name, []):
        pl, hl = _line_of(text, pp), _line_of(text, hp)
        r = qb.Recorder(None)
        ob = recmod.EventObserver(module, raw=True)
        with contextlib.redirect_stdout(io.StringIO()):
            m = QvmMachine(module, impl=r)
            cpu = m.cpu
            orig = cpu.tick

            def tick(cpu=cpu, orig=orig, ob=ob, r=r):
                ins = cpu.get_instruction_at(cpu.pc)
                ob.before(cpu, ins[0], ins[1], r)
                try:
                    return orig()
                finally:
                    ob.after(cpu, ins[0], ins[1], r)
            cpu.tick = tick
            dbg = Cmd(m, module)

        def cmd(line):
            o = io.StringIO()
            exc = ''
            with contextlib.redirect_stdout(o):
                try:
                    dbg.onecmd(line)
                except Exception as e:
                    exc = '%s@%s' % (type(e).__name__, qb.where_of(e))
            return o.getvalue(), exc
        cmd('break %d' % pl)
        cmd('continue')
        cmd('step')          # executes the PRINT
        cmd('step')          # executes the CALL: control is on the header
        st = dbg.find_stmt(cpu.pc)
        if st is None or st.source_start_line != hl or not ob.events:
            out.append({'what': 'after', 'expr': 'header-not-reached', 'ln': hl, 'dk': 'val', 'dv': '', 'pv': '', 'same': 1, 'text': '', 'exc': '', 'kind': ''})
            continue
        ev = ob.events[-1]
        items = [x.strip() for x in text.split('\n')[pl - 1].strip()[6:].split(';')]
        vals = [it for it in ev['items'] if it['k'] == 'val']
        known = {x: v['raw'] for x, v in zip(items, vals)} if len(items) == len(vals) else {}
        kinds = {x: v['v'][0] for x, v in zip(items, vals)} if len(items) == len(vals) else {}
        for what, names in (('header-local', callee), ('header-caller', caller)):
            for nm in names:
                d0 = dbgdrive.digest(cpu, r)
                t, exc = cmd('print ' + nm)
                same = 1 if dbgdrive.digest(cpu, r) == d0 else 0
                dk = 'crash' if exc else ('unassigned' if 'does not have a value yet' in t or 'not initialized' in t else
                                          'evalerr' if t.startswith('Eval error') else 'parse' if t.startswith('Error parsing') else 'val')
                pv = known.get(nm, '')
                dv = ''
                if dk == 'val':
                    dv = norm_answer(t, kinds.get(nm, 'T')) or t.strip()
                out.append({'what': what, 'expr': nm, 'ln': hl, 'dk': dk, 'dv': dv, 'pv': pv, 'same': same, 'text': t[:200], 'exc': exc,
                            'kind': kinds.get(nm, '')})
    return out


def fixed_probes(text):
    out = {}
    for ln, line in enumerate(text.split('\n'), 1):
        t = line.strip()
        if t.startswith('PRINT '):
            out[ln] = [x.strip() for x in t[6:].split(';')]
    return out


def _job(job):
    seed, O = job
    if isinstance(seed, str):
        return _session(seed, O, FIXED[seed], None, None, fixed_probes(FIXED[seed]))
    try:
        g = gen.Gen(seed, size=12, depth=3)
        prog = g.program(wide=True)
        if seed % 2:
            augment(prog)
        u = gen.Unparser(prog)
        text = u.text()
        ast = gen.strip_for_tlc(prog)
        li = u.lineinfo
    except Exception as e:
        return {'seed': seed, 'genfail': '%s: %s' % (type(e).__name__, e)}
    probes = probes_of(prog, li)
    if not probes:
        return None
    return _session(seed, O, text, ast, probes, None)


# subscripts just below a lower bound (in scope or not: either way an evaluation error is owed)
NEG_SUBS = {
    'storage-classes': ['ga(-1)', 'sa(0)', 'lc(0)'],
    'records': ['rs(0).id', 'rs(-2).inn.a'],
    'recursion-arrays': ['v(4)', 'grid(0, 0)', 'grid(1, -2)', 'dyn(1)', 'a(-1)'],
}


def array_lower_bounds(ast):
    """array name -> list of constant lower bounds (from the DIM statements of the AST)"""
    out = {}

    def const(e):
        while e.get('k') == 'par':
            e = e['a']
        if e.get('k') == 'num' and 'v' in e:
            return e['v']
        if e.get('k') == 'un' and e.get('o') == 'neg':
            c = const(e['a'])
            return None if c is None else -c
        return None

    def walk(b):
        for s in b:
            if s.get('k') == 'dim' and s.get('dims'):
                lows = [const(d['lo']) for d in s['dims']]
                if all(x is not None for x in lows):
                    out[s['n']] = lows
            for key in ('body', 'els'):
                if isinstance(s.get(key), list):
                    walk(s[key])
            for a in s.get('arms', []):
                walk(a['body'])
            for c in s.get('cases', []):
                walk(c['body'])
    if ast:
        walk(ast.get('main', []))
        for p in ast.get('procs', []):
            walk(p['body'])
    return out


def _session(seed, O, text, ast, probes, text_probes):
    fixed = text_probes is not None
    lower_bounds = array_lower_bounds(ast)
    if fixed:
        probes = {ln: [{'k': 'txt', 'x': x} for x in xs] for ln, xs in text_probes.items()}
    free = recmod.run_recorded(text, O, True, budget=60000)
    if free['st'] != 'ok':
        return {'seed': seed, 'fail': free['st'], 'detail': free['detail'], 'text': text, 'O': O}
    if free['outcome']['how'] == 'budget':
        return None
    module = qb.load_module(free['bytes'])
    from qvm.machine import QvmMachine
    from qvm.dbg import Cmd
    r = qb.Recorder(None)
    ob = recmod.EventObserver(module, raw=True)
    findings = []
    stops = []
    sink = io.StringIO()
    with contextlib.redirect_stdout(sink):
        m = QvmMachine(module, impl=r)
        cpu = m.cpu
        orig = cpu.tick
        nt = [0]

        def tick():
            nt[0] += 1
            if nt[0] > 200000:
                raise RuntimeError('tick budget')
            ins = cpu.get_instruction_at(cpu.pc)
            ob.before(cpu, ins[0], ins[1], r)
            try:
                return orig()
            finally:
                ob.after(cpu, ins[0], ins[1], r)
        cpu.tick = tick
        dbg = Cmd(m, module)
    sm = dbgdrive.StmtMap(module, cpu)
    addr2line = {}
    for ln in probes:
        a = sm.line_addr(ln)
        if a:
            addr2line.setdefault(a, ln)

    def cmd(line):
        out = io.StringIO()
        exc = ''
        with contextlib.redirect_stdout(out):
            try:
                dbg.onecmd(line)
            except Exception as e:
                exc = '%s@%s' % (type(e).__name__, qb.where_of(e))
        return out.getvalue(), exc
    for ln in sorted(addr2line.values()):
        cmd('break %d' % ln)
    rng = random.Random(str(seed))
    probes_out = []     # the questions put to the debugger, for Trace_DebugEval.tla

    def classify(t, exc):
        if exc:
            return 'crash'
        if t.startswith('Eval error'):
            if 'does not have a value yet' in t or 'not initialized' in t:
                return 'unassigned'
            return 'evalerr'
        if t.startswith('Error parsing'):
            return 'parse'
        return 'val'

    def ask(what, et, ln):
        d0 = dbgdrive.digest(cpu, r)
        t, exc = cmd('print ' + et)
        same = 1 if dbgdrive.digest(cpu, r) == d0 else 0
        pr = {'what': what, 'expr': et, 'ln': ln, 'dk': classify(t, exc), 'dv': '', 'pv': '', 'same': same, 'text': t[:200], 'exc': exc, 'kind': ''}
        probes_out.append(pr)
        return pr
    nstops = 0
    first = True
    while nstops < 80:
        if not (first and cpu.pc in addr2line):
            t, exc = cmd('continue')
            if exc:
                findings.append({'clause': 'crash', 'trigger': 'continue:' + exc, 'expr': '', 'line': 0})
                break
            if 'Hit breakpoint' not in t:
                break
        first = False
        if cpu.pc not in addr2line:
            break
        ln = addr2line[cpu.pc]
        nstops += 1
        answers = []
        for e in probes[ln]:
            if not is_safe(e):
                answers.append(None)
                continue
            answers.append(ask('item', e['x'] if e['k'] == 'txt' else gen.expr_text(e), ln))
        if rng.random() < 0.4:
            ask('unknown', 'zzq9%', ln)
            if fixed and seed == 'storage-classes':
                ask('unknown', 'k(1)', ln)          # a subscripted constant: not a value, must be reported
            arrs = []
            arrays_in(probes[ln], arrs)
            for a in arrs[:1]:
                ask('subscript', '%s(%s)' % (a['n'], ', '.join(['30000'] * len(a['ix']))), ln)
                # just below the lower bound (a Python list would wrap around)
                lows = lower_bounds.get(a['n'])
                if lows and len(lows) == len(a['ix']):
                    ask('subscript', '%s(%s)' % (a['n'], ', '.join([str(lows[0] - 1)] + [str(x) for x in lows[1:]])), ln)
            for et in NEG_SUBS.get(seed, []) if fixed else []:
                ask('subscript', et, ln)
        stops.append({'ln': ln, 'e0': len(ob.events), 'answers': answers})
    # run to the end, then evaluate after the program has finished
    guard = 0
    while not cpu.halted and guard < 200:
        t, exc = cmd('continue')
        guard += 1
        if exc:
            break
    for ln in list(probes)[:2]:
        for e in probes[ln][:2]:
            if is_safe(e):
                ask('after', e['x'] if e['k'] == 'txt' else gen.expr_text(e), ln)
    events = ob.events
    for e in events:
        e.pop('text', None)
    fe = free['events']
    for e in fe:
        e.pop('text', None)
    plain = json.loads(json.dumps(events))
    for e in plain:
        for it in e.get('items', []):
            it.pop('raw', None)
    if cpu.halted and json.dumps(plain, sort_keys=True) != json.dumps(fe, sort_keys=True):
        findings.append({'clause': 'state-altered', 'trigger': 'events-differ-from-free-run', 'expr': '', 'line': 0})
    # pair every answer with the value the program then printed; substitute the in-model ones
    asked = 0
    subst = plain
    unassigned = 0
    for st in stops:
        if st['e0'] >= len(events):
            for a in st['answers']:
                if a is not None:
                    a['what'] = 'after'        # the statement never printed (error before): nothing to compare with
            continue
        ev = events[st['e0']]
        sev = subst[st['e0']]
        vals = [it for it in ev['items'] if it['k'] == 'val'] if ev['k'] == 'print' else []
        svals = [it for it in sev['items'] if it['k'] == 'val'] if ev['k'] == 'print' else []
        if ev['k'] != 'print' or ev.get('ln') != st['ln'] or len(vals) != len(st['answers']):
            for a in st['answers']:
                if a is not None:
                    a['what'] = 'after'
            continue
        for it, sit, a in zip(vals, svals, st['answers']):
            if a is None:
                continue
            asked += 1
            kind = it['v'][0]
            a['kind'] = kind
            a['pv'] = it['raw']
            if a['dk'] == 'unassigned':
                unassigned += 1
            if a['dk'] != 'val':
                continue
            nv = norm_answer(a['text'], kind)
            if nv is None:
                a['dv'] = 'not-a-%s:%s' % (kind, a['text'].strip()[:30])
                continue
            a['dv'] = nv
            v = dbg_value(a['text'], it)
            if v is not None:
                sit['dbg'] = a['expr']
                sit['prog'] = sit['v']
                sit['v'] = v['v']
                sit['big'] = v['big']
    if fixed:
        probes_out += header_session(seed, O, module, text)
    return {'seed': seed, 'O': O, 'text': text, 'ast': ast, 'findings': findings, 'asked': asked, 'stops': len(stops), 'skipped': {'unassigned': unassigned},
            'probes': probes_out, 'obs': [{'cfg': 'O%dg' % O, 'events': subst, 'outcome': free['outcome']}]}


def run(ctx):
    work = tlc.scratch_dir('qbv-c13-')
    try:
        _run(ctx, work)
    finally:
        import shutil
        shutil.rmtree(work, ignore_errors=True)


def _run(ctx, work):
    n = ctx.pick(150, 4000)
    jobs = [(name, O) for name in FIXED for O in (0, 1, 2)] + [(ctx.seed * 100000 + 30000 + i, i % 3) for i in range(n)]
    res = [r for r in par.pmap(_job, jobs, chunk=2) if r is not None]
    cases = []
    good = []
    asked = stops = unassigned = 0
    for r in res:
        if 'genfail' in r:
            raise Machinery('generator failed on seed %d: %s' % (r['seed'], r['genfail']))
        if 'fail' in r:
            d = r['detail']
            ctx.violation('rejected-or-crashed', '%s@%s' % (d.get('type'), d.get('where')) if r['fail'] == 'crash' else r['fail'],
                          {'program': r['text'], 'level': r['O'], 'detail': d, 'seed': r['seed']})
            continue
        asked += r['asked']
        stops += r['stops']
        unassigned += r['skipped']['unassigned']
        for f in r['findings']:
            ctx.violation(f['clause'], f['trigger'], {'program': r['text'], 'level': r['O'], 'seed': r['seed'], 'expr': f['expr'], 'line': f['line'],
                                                      'finding': f})
        if r['ast'] is not None:
            cases.append({'tid': len(cases), 'seed': r['seed'], 'ast': r['ast'], 'obs': r['obs'], 'text': r['text'], 'O': r['O']})
        good.append(r)
    # agreement relation (all probes, exact values) decided by Trace_DebugEval.tla
    pcases = [{'id': i, 'probes': [{k: q[k] for k in ('what', 'dk', 'dv', 'pv', 'same')} for q in r['probes']]} for i, r in enumerate(good)]
    estats = {}
    nprobes = 0
    SH = 400
    for si in range(0, len(pcases), SH):
        path = os.path.join(work, 'probes-%d.json' % si)
        tlc.write_json(path, pcases[si:si + SH])
        tr = tlc.run_tlc('Trace_DebugEval', 'SPECIFICATION Spec\nCHECK_DEADLOCK FALSE\n', env={'CASES': path}, workers=1, timeout=1700, heap='3g')
        if tr.error or len(tr.printed) != len(pcases[si:si + SH]):
            raise Machinery('Trace_DebugEval: ' + str(tr.error)[:1200])
        for x in tr.printed:
            r = good[x['id']]
            nprobes += x['n']
            if not x['r']:
                estats['ok'] = estats.get('ok', 0) + 1
            for f in x['r']:
                q = r['probes'][f['k'] - 1]
                estats[f['v']] = estats.get(f['v'], 0) + 1
                if f['v'] == 'crash':
                    trig = '%s:%s' % (q['what'], q['exc'])
                elif f['v'] in ('eval-error', 'parse-error', 'error-not-reported'):
                    trig = '%s:%s' % (q['what'], q['text'].strip()[:50])
                else:
                    trig = shape_of(None, q['expr']) + ':' + q['kind']
                ctx.violation(f['v'], trig, {'program': r['text'], 'level': r['O'], 'seed': r['seed'], 'line': q['ln'], 'expr': q['expr'],
                                             'debugger_answer': q['text'], 'program_value': q['pv'], 'probe': q})
        os.unlink(path)
    verdicts = c01.validate(work, cases)
    stats = {}
    for c, v in zip(cases, verdicts):
        vd = v['verd'][0]
        stats[vd] = stats.get(vd, 0) + 1
        if vd in ('ok', 'oom', 'budget', 'impl-budget'):
            continue
        o = c['obs'][0]
        pos = v['pos'][0]
        ev = o['events'][pos - 1] if 0 < pos <= len(o['events']) else None
        dbgitems = [it for it in (ev or {}).get('items', []) if 'dbg' in it]
        if vd == 'value' and dbgitems:
            bad = [it for it in dbgitems if it['v'] != it['prog']]
            it = bad[0] if bad else dbgitems[0]
            ctx.violation('dbg-value', shape_of(c['ast'], it['dbg']), {'program': c['text'], 'level': c['O'], 'seed': c['seed'], 'line': ev.get('ln'),
                                                                    'expr': it['dbg'], 'debugger_value': it['v'], 'program_value': it['prog']})
        else:
            # the program itself disagrees with the specification: C01's business, reported there
            stats['not-debugger:' + vd] = stats.get('not-debugger:' + vd, 0) + 1
    # binding demonstration: corrupt one debugger answer
    import copy
    demo = []
    for c, v in zip(cases, verdicts):
        if len(demo) >= 10 or v['verd'][0] != 'ok':
            continue
        o = copy.deepcopy(c['obs'][0])
        done = False
        for e in o['events']:
            for it in e.get('items', []):
                if 'dbg' in it and it['v'][0] in 'IL' and not done:
                    it['v'][1] += 1
                    done = True
        if done:
            demo.append({'tid': len(demo), 'ast': c['ast'], 'obs': [o]})
    dv = c01.validate(work, demo, name='demo.json') if demo else []
    bd = {'corrupted': len(demo), 'rejected': sum(1 for x in dv if x['verd'][0] not in ('ok', 'oom', 'budget'))}
    if bd['rejected'] != bd['corrupted']:
        raise Machinery('binding demonstration failed: %r' % bd)
    ctx.coverage.update({
        'states': sum(v['steps'] for v in verdicts) + len(verdicts), 'transitions': sum(v['steps'] for v in verdicts),
        'traces_validated_against_impl': len(cases), 'programs': len(cases), 'stops': stops, 'expressions_evaluated_in_debugger': asked,
        'skipped_unassigned': unassigned, 'verdicts': stats, 'probes': nprobes, 'agreement_verdicts': estats, 'binding_demo': bd,
        'samples': [{'seed': cases[0]['seed'], 'program': cases[0]['text'][:800]}] if cases else [],
    })


def shape_of(ast, expr):
    import re
    kinds = []
    if re.search(r'[A-Za-z0-9_%&!#$]\(', expr):
        kinds.append('index')
    if re.search(r'[A-Za-z)]\.[A-Za-z]', expr):
        kinds.append('field')
    if '/' in expr:
        kinds.append('div')
    return '+'.join(kinds) or 'plain'


def replay(ctx, case):
    print(case.get('program'))
    print(json.dumps({k: v for k, v in case.items() if k != 'program'}, indent=1)[:3000])
    ctx.coverage.update({'evaluations': 1, 'samples': [case.get('seed')]})
