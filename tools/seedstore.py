#!/venv/bin/python
"""usage: tools/seedstore.py <PID> <seed-dir> <name> [checks...]
Confirms a seeded change (tools/seedeval.sh), runs checks against it and stores it under
/verif/seeded/<name>/ with the outcome recorded in meta.json."""
import json, os, shutil, subprocess, sys
pid, sd, name = sys.argv[1:4]
checks = sys.argv[4:] or [pid]
out = subprocess.run(['/verif/tools/seedeval.sh', pid, sd] + checks, stdout=subprocess.PIPE, stderr=subprocess.STDOUT).stdout.decode()
print(out)
ok = 'demo-unchanged-exit=0' in out and 'demo-changed-exit=1' in out and 'tests:' in out and 'failed' not in out.split('tests:')[1].split('\n')[0] and 'error' not in out.split('tests:')[1].split('\n')[0].lower()
caught = sorted({l.split('signature=')[1].split(' ')[0] for l in out.splitlines() if l.startswith('VIOLATION') and 'signature=' in l})
dst = os.path.join('/verif/seeded', name)
os.makedirs(dst, exist_ok=True)
for f in ('patch.diff', 'demo.py'):
    shutil.copy(os.path.join(sd, f), os.path.join(dst, f))
meta = json.load(open(os.path.join(sd, 'meta.json')))
meta.update({'confirmed': ok, 'checks_run': ['./check %s --tier quick' % c for c in checks],
             'caught': bool(caught), 'violation_signatures': caught[:12],
             'how_confirmed': 'scratch copy of /repo: demo.py exit 0 before the patch, exit 1 after; pytest suite passes with the patch'})
json.dump(meta, open(os.path.join(dst, 'meta.json'), 'w'), indent=1)
print('STORED', name, 'confirmed=%s caught=%s' % (ok, bool(caught)))
