"""Running TLC from the harness.

run_tlc() copies nothing: it runs TLC with cwd=/verif/spec-independent scratch
dir, passing the spec file by absolute path and a generated .cfg.  Output of
`PrintT(ToJson(x))` (one line: a JSON string literal containing JSON) is
decoded and returned in `printed`.  Anything TLC reports as an error (invariant
violation, evaluation error, deadlock) is returned in `error`.
"""
import json
import os
import re
import shutil
import subprocess
import tempfile
import time

VERIF = os.path.dirname(os.path.dirname(os.path.abspath(__file__)))
SPEC_DIR = os.path.join(VERIF, 'spec')


class TlcFailure(Exception):
    """Machinery failure (exit 2), never a property violation."""


class TlcResult:
    def __init__(self):
        self.stdout = ''
        self.printed = []        # decoded PrintT(ToJson(..)) lines
        self.generated = 0
        self.distinct = 0
        self.depth = 0
        self.error = None        # text of the TLC error block, if any
        self.invariant = None    # name of a violated invariant, if any
        self.coverage = {}       # action name -> count (with coverage=True)
        self.wall = 0.0
        self.returncode = 0


_STATES = re.compile(r'(\d+) states generated, (\d+) distinct states found')
_DEPTH = re.compile(r'depth of the complete state graph search is (\d+)')
_INV = re.compile(r'Invariant (\S+) is violated')
_COV = re.compile(r'^<(\w+) line \d+, col \d+ to line \d+, col \d+ of module (\w+)>: (\d+):(\d+)')


def scratch_dir(prefix='qbv-'):
    base = os.environ.get('TMPDIR', '/tmp')
    return tempfile.mkdtemp(prefix=prefix, dir=base)


def run_tlc(module, cfg, env=None, workers=1, timeout=1800, simulate=None,
            depth=None, seed=None, coverage=False, heap='4g', extra=None,
            keep=False, deadlock=False):
    """module: name of a module in /verif/spec (without .tla).
    cfg: text of the configuration file.
    env: dict of environment variables read by the spec through IOEnv."""
    work = scratch_dir('qbv-tlc-')
    try:
        cfg_path = os.path.join(work, module + '.cfg')
        with open(cfg_path, 'w') as f:
            f.write(cfg)
        # TLC resolves EXTENDS relative to the directory of the root module
        # and the cwd; run from the spec directory.
        cmd = ['java', '-XX:+UseParallelGC', '-Xmx' + heap,
               '-cp', '/opt/veriftools/tla/tla2tools.jar:'
                      '/opt/veriftools/tla/CommunityModules-deps.jar',
               'tlc2.TLC', '-config', cfg_path,
               '-metadir', os.path.join(work, 'meta'),
               '-noGenerateSpecTE', '-workers', str(workers)]
        if deadlock:
            cmd += ['-deadlock']
        if simulate is not None:
            cmd += ['-simulate', 'num=%d' % simulate]
            if depth is not None:
                cmd += ['-depth', str(depth)]
        if seed is not None:
            cmd += ['-seed', str(seed)]
        if coverage:
            cmd += ['-coverage', '1']
        if extra:
            cmd += list(extra)
        cmd.append(os.path.join(SPEC_DIR, module + '.tla'))
        e = dict(os.environ)
        e.pop('JAVA_TOOL_OPTIONS', None)
        e.pop('LD_PRELOAD', None)
        if env:
            e.update({k: str(v) for k, v in env.items()})
        t0 = time.time()
        try:
            p = subprocess.run(cmd, cwd=SPEC_DIR, env=e, stdout=subprocess.PIPE,
                               stderr=subprocess.STDOUT, timeout=timeout)
        except subprocess.TimeoutExpired:
            subprocess.run(['pkill', '-f', work], check=False)
            raise TlcFailure('TLC timed out after %ds on %s' % (timeout, module))
        r = TlcResult()
        r.wall = time.time() - t0
        r.returncode = p.returncode
        out = p.stdout.decode('utf-8', 'replace')
        r.stdout = out
        err_lines = []
        in_err = False
        for line in out.splitlines():
            if line.startswith('"{') or line.startswith('"['):
                try:
                    r.printed.append(json.loads(json.loads(line)))
                    continue
                except Exception:
                    pass
            m = _STATES.search(line)
            if m:
                r.generated, r.distinct = int(m.group(1)), int(m.group(2))
            m = _DEPTH.search(line)
            if m:
                r.depth = int(m.group(1))
            m = _INV.search(line)
            if m:
                r.invariant = m.group(1)
            m = _COV.match(line)
            if m:
                r.coverage[m.group(1)] = r.coverage.get(m.group(1), 0) + int(m.group(3))
            if line.startswith('Error:') or 'TLC threw an unexpected exception' in line \
                    or 'was violated' in line or 'is violated' in line \
                    or 'Deadlock reached' in line:
                in_err = True
            if in_err:
                err_lines.append(line)
                if len(err_lines) > 200:
                    in_err = False
        if err_lines:
            r.error = '\n'.join(err_lines[:200])
        if simulate is not None and r.error is None and p.returncode not in (0,):
            # simulation ends with its own summary; not an error
            pass
        if r.error is None and p.returncode != 0 and 'No error has been found' not in out \
                and simulate is None:
            r.error = 'TLC exit %d\n%s' % (p.returncode, out[-3000:])
        return r
    finally:
        if not keep:
            shutil.rmtree(work, ignore_errors=True)


def sany(module):
    p = subprocess.run(['tla-sany', os.path.join(SPEC_DIR, module + '.tla')],
                       cwd=SPEC_DIR, stdout=subprocess.PIPE, stderr=subprocess.STDOUT)
    out = p.stdout.decode('utf-8', 'replace')
    ok = p.returncode == 0 and 'error' not in out.lower().replace('errors: 0', '')
    return ok, out


def write_json(path, obj):
    with open(path, 'w') as f:
        json.dump(obj, f, separators=(',', ':'))


def bytes_of(s):
    """str (latin-1/cp437 safe, one byte per char) -> list of byte codes."""
    return [ord(c) if ord(c) < 256 else 63 for c in s]
