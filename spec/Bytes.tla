-------------------------------- MODULE Bytes --------------------------------
(* Byte codes used by the text-level specifications (texts are sequences of   *)
(* byte codes: TLC strings cannot be indexed).                                *)
EXTENDS Integers, Sequences
BLANK == 32
BANG == 33
QUOTE == 34
SHARP == 35
PERCENT == 37
AMP == 38
PLUS == 43
COMMA == 44
MINUS == 45
POINT == 46
COLON == 58
USCORE == 95
CR == 13
LF == 10
IsDigit(c) == c >= 48 /\ c <= 57
=============================================================================
