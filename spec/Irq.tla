--------------------------------- MODULE Irq ---------------------------------
(***************************************************************************)
(* Interrupt requests and the tick loop of the VM (property C07).          *)
(* The machine state proper is abstracted to `mem` (a digest of operand    *)
(* stack, frames, globals and device history).  An interrupt request may   *)
(* arrive between any two ticks; with no error handler armed the next tick *)
(* must stop the run with the keyboard-interrupt trap before any further   *)
(* instruction executes, i.e. with `mem` unchanged.                        *)
(***************************************************************************)
EXTENDS Integers
VARIABLES k,        \* number of instructions executed
          mem,      \* digest of the machine state
          irq,      \* an interrupt request is pending
          armed,    \* an error handler is armed (ON ERROR ...)
          halted, trap
ivars == <<k, mem, irq, armed, halted, trap>>

IrqInit(m0) == k = 0 /\ mem = m0 /\ irq = FALSE /\ armed = FALSE /\ halted = FALSE /\ trap = ""

\* one instruction: only when no request is pending
Exec(m1, arm, stop) == /\ ~halted /\ ~irq
                       /\ k' = k + 1 /\ mem' = m1 /\ armed' = arm
                       /\ halted' = stop /\ UNCHANGED <<irq, trap>>
Interrupt == /\ ~halted /\ ~irq /\ irq' = TRUE /\ UNCHANGED <<k, mem, armed, halted, trap>>
\* the tick that finds a pending request
TickIrq == /\ ~halted /\ irq /\ irq' = FALSE
           /\ IF armed THEN UNCHANGED <<k, armed, halted>> /\ trap' = "KEYBOARD_INTERRUPT" /\ mem' \in {mem}   \* dispatched to the handler
              ELSE halted' = TRUE /\ trap' = "KEYBOARD_INTERRUPT" /\ UNCHANGED <<k, mem, armed>>

\* the property: a pending request with no handler armed is served by the very next step,
\* which halts with the keyboard-interrupt trap and leaves the machine state alone
IrqStops == [][(irq /\ ~armed /\ ~halted) => (halted' /\ trap' = "KEYBOARD_INTERRUPT" /\ mem' = mem /\ k' = k)]_ivars
=============================================================================
