------------------------------- MODULE NumText -------------------------------
(***************************************************************************)
(* Numbers as text (property C16).  Everything is decided on byte codes    *)
(* and decimal digit sequences; a value is given by its EXACT decimal      *)
(* expansion [neg, ip (integer digits, no leading zeros), fp (fraction     *)
(* digits, no trailing zeros)].                                            *)
(*                                                                         *)
(*  Shape(t)      the text of a number as PRINT writes it: sign position   *)
(*                (blank or minus) followed by a numeral without blanks    *)
(*  Near(e, q)    the numeral scanned into q lies within half a unit of    *)
(*                its last shown digit of the exact value e                *)
(*  SigDigits(q)  number of significant digits shown                       *)
(***************************************************************************)
EXTENDS Numeral, Using      \* Numeral: scanner; Using: RoundDec, IncDigits, digit helpers

\* ---- shape ---------------------------------------------------------------------
SignChar(t) == IF t = <<>> THEN -1 ELSE t[1]
Body(t) == IF t = <<>> THEN <<>> ELSE Tail(t)
\* sign position then a well formed numeral (no blanks inside, no leading '+')
Shape(t) == /\ Len(t) >= 2
            /\ SignChar(t) \in {BLANK, MINUS}
            /\ LET q == Scan(Body(t)) IN WellFormed(q) /\ ~q.plus /\ ~q.neg
TextNeg(t) == SignChar(t) = MINUS
Q(t) == Scan(Body(t))

\* plain decimal form of an integer: digits only, no leading zeros (except "0")
PlainInt(t) == LET q == Q(t) IN
               /\ ~q.point /\ q.mark = ""
               /\ (Len(q.ds) = 1 \/ q.ds[1] # 0)

\* ---- the numeral as mantissa digits M and the decimal position p of its last digit:
\*      value = M * 10^p
\* Trailing zeros of the mantissa are not counted as shown digits: "12345680" for the SINGLE
\* 12345678 shows 7 significant digits, its last shown digit is the 8 (position 1).
Mant(q) == StripTrailZ(StripLeadZ(q.ds))
LastPos(q) == ExpVal(q) - (Len(q.ds) - q.il) + (Len(StripLeadZ(q.ds)) - Len(Mant(q)))
SigDigits(q) == Len(Mant(q))

\* ---- accuracy --------------------------------------------------------------------
\* exact value e = [ip, fp] shifted by 10^-p: digits left and right of position p
ShiftIp(e, p) == IF p >= 0
                 THEN (IF Len(e.ip) > p THEN SubSeq(e.ip, 1, Len(e.ip) - p) ELSE <<>>)
                 ELSE e.ip \o (IF Len(e.fp) >= -p THEN SubSeq(e.fp, 1, -p) ELSE e.fp \o Zeros(-p - Len(e.fp)))
ShiftFp(e, p) == IF p >= 0
                 THEN (IF Len(e.ip) >= p THEN SubSeq(e.ip, Len(e.ip) - p + 1, Len(e.ip))
                       ELSE Zeros(p - Len(e.ip)) \o e.ip) \o e.fp
                 ELSE (IF Len(e.fp) > -p THEN SubSeq(e.fp, 1 - p, Len(e.fp)) ELSE <<>>)

\* the admissible mantissas at position p: the nearest multiples of 10^p (both at a tie)
Nearest(e, p) == { StripLeadZ(r[1]) : r \in RoundDec(StripLeadZ(ShiftIp(e, p)), ShiftFp(e, p), 0) }

Near(e, q) == Mant(q) \in Nearest(e, LastPos(q))

IsZeroVal(e) == e.ip = <<>> /\ e.fp = <<>>
\* the sign shown agrees with the value (a value that rounds to zero may show either sign)
SignOK(e, t) == IF IsZeroVal(e) \/ Mant(Q(t)) = <<>> THEN TRUE ELSE TextNeg(t) = e.neg

\* exactly equal: the numeral denotes e itself (used for integers)
Exact(e, q) == /\ LastPos(q) >= 0 => (Mant(q) \o Zeros(LastPos(q)) = e.ip \/ (Mant(q) = <<>> /\ e.ip = <<>>)) /\ e.fp = <<>>
               /\ LastPos(q) < 0 => FALSE
=============================================================================
