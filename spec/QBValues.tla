------------------------------ MODULE QBValues ------------------------------
(***************************************************************************)
(* The value domain of QBASIC as the source semantics (QB.tla) and the     *)
(* machine semantics (QVM.tla) see it.                                     *)
(*                                                                         *)
(* Every value has the uniform shape <<kind, a, b>>:                       *)
(*   <<"I", n, 0>>  INTEGER      <<"L", n, 0>>  LONG                       *)
(*   <<"S", m, e>>  SINGLE  = m * 2^e, m odd or (m = 0 /\ e = 0)           *)
(*   <<"D", m, e>>  DOUBLE  likewise                                       *)
(*   <<"T", bytes, 0>> STRING                                              *)
(*   <<"ERR", kind, 0>>  a run-time error (OVF DIV0 SUBSCRIPT ILLEGAL ...) *)
(*   <<"OOM", 0, 0>>  out of model: the exact result is not representable  *)
(*                    inside the window TLC can compute (31-bit mantissa)  *)
(* All operators are total: TLC aborts a whole run on 32-bit overflow, so  *)
(* every arithmetic step is guarded.                                       *)
(***************************************************************************)
EXTENDS Bytes

MaxL == 2147483647
MinL == -2147483647 - 1
MaxI == 32767
MinI == -32768

IntV(n) == <<"I", n, 0>>
LngV(n) == <<"L", n, 0>>
StrV(s) == <<"T", s, 0>>
Err(k) == <<"ERR", k, 0>>
OOM == <<"OOM", 0, 0>>
IsErr(v) == v[1] = "ERR"
IsOOM(v) == v[1] = "OOM"
Bad(v) == v[1] \in {"ERR", "OOM"}
Kind(v) == v[1]
IsIntK(t) == t \in {"I", "L"}
IsFltK(t) == t \in {"S", "D"}
IsNumK(t) == t \in {"I", "L", "S", "D"}

Lo(t) == IF t = "I" THEN MinI ELSE MinL
Hi(t) == IF t = "I" THEN MaxI ELSE MaxL
\* an integer of type t, or overflow
MkInt(t, n) == IF n < Lo(t) \/ n > Hi(t) THEN Err("OVF") ELSE <<t, n, 0>>

Abs(n) == IF n < 0 THEN 0 - n ELSE n      \* never applied to MinL
Sgn(n) == IF n > 0 THEN 1 ELSE IF n < 0 THEN -1 ELSE 0

\* ---- guarded integer arithmetic: <<ok, result>> ---------------------------------
SAdd(a, b) == IF (b > 0 /\ a > MaxL - b) \/ (b < 0 /\ a < MinL - b) THEN <<FALSE, 0>> ELSE <<TRUE, a + b>>
SSub(a, b) == IF (b < 0 /\ a > MaxL + b) \/ (b > 0 /\ a < MinL + b) THEN <<FALSE, 0>> ELSE <<TRUE, a - b>>
SMul(a, b) ==
    IF a = 0 \/ b = 0 THEN <<TRUE, 0>>
    ELSE IF a = MinL \/ b = MinL THEN (IF a = 1 THEN <<TRUE, b>> ELSE IF b = 1 THEN <<TRUE, a>> ELSE <<FALSE, 0>>)
    \* the one product of larger magnitude that still fits: exactly -2^31
    ELSE IF ((a < 0) # (b < 0)) /\ Abs(b) > 1 /\ Abs(a) = (MaxL \div Abs(b)) + 1 /\ (MaxL % Abs(b)) + 1 = Abs(b) THEN <<TRUE, MinL>>
    ELSE IF Abs(a) > MaxL \div Abs(b) THEN <<FALSE, 0>>
    ELSE <<TRUE, a * b>>
\* truncating division and remainder with the sign of the dividend (b # 0, not MinL / -1)
TDiv(a, b) == IF b = 1 THEN a
              ELSE IF a = MinL
              THEN (IF b > 0 THEN 0 - ((MaxL \div b) + (IF (MaxL % b) + 1 = b THEN 1 ELSE 0))
                    ELSE IF b = MinL THEN 1
                    ELSE ((MaxL \div (0 - b)) + (IF (MaxL % (0 - b)) + 1 = (0 - b) THEN 1 ELSE 0)))
              ELSE IF b = MinL THEN 0
              ELSE LET q == Abs(a) \div Abs(b) IN IF (a >= 0) = (b > 0) THEN q ELSE 0 - q
TMod(a, b) == IF b = MinL THEN (IF a = MinL THEN 0 ELSE a)
              ELSE a - TDiv(a, b) * b

\* powers of two up to 2^30
RECURSIVE Pow2(_)
Pow2(k) == IF k <= 0 THEN 1 ELSE 2 * Pow2(k - 1)

\* ---- floats: exact dyadic rationals ------------------------------------------------
RECURSIVE NormF(_, _, _)
NormF(t, m, e) == IF m = 0 THEN <<t, 0, 0>>
                  ELSE IF m % 2 = 0 THEN NormF(t, m \div 2, e + 1)
                  ELSE <<t, m, e>>
\* mantissa budget: SINGLE has 24 bits; DOUBLE values are kept below 2^30 so that every
\* intermediate fits TLC's integers
MantMax(t) == IF t = "S" THEN 16777216 ELSE 1073741824
\* a float of type t from m * 2^e, or OOM when it is not exactly representable in the window
RECURSIVE BitLen(_)
BitLen(m) == IF m = 0 THEN 0 ELSE 1 + BitLen((IF m < 0 THEN 0 - m ELSE m) \div 2)
\* binary exponent limits of the types: |x| < 2^128 (SINGLE), 2^1024 (DOUBLE); beyond = overflow
ExpMax(t) == IF t = "S" THEN 128 ELSE 1024
MkF(t, m, e) == LET v == NormF(t, m, e)
                IN IF v[2] >= MantMax(t) \/ v[2] <= 0 - MantMax(t) THEN OOM
                   ELSE IF v[2] # 0 /\ BitLen(v[2]) + v[3] > ExpMax(t) THEN Err("OVF")
                   ELSE IF v[3] > 1100 \/ v[3] < -100 THEN OOM ELSE v
FZero(t) == <<t, 0, 0>>

\* shift a mantissa left by k bits: <<ok, m * 2^k>>
ShiftL(m, k) == IF k = 31 /\ m = -1 THEN <<TRUE, MinL>>          \* -2^31 is representable
                ELSE IF k > 30 THEN <<m = 0, 0>>
                ELSE IF k <= 0 THEN <<TRUE, m>>
                ELSE SMul(m, Pow2(k))

FAdd(t, a, b) == \* a, b of float kind (any), result of type t
    LET e == IF a[3] < b[3] THEN a[3] ELSE b[3]
        ma == ShiftL(a[2], a[3] - e)
        mb == ShiftL(b[2], b[3] - e)
        s == IF ma[1] /\ mb[1] THEN SAdd(ma[2], mb[2]) ELSE <<FALSE, 0>>
    IN IF a[2] = 0 THEN MkF(t, b[2], b[3]) ELSE IF b[2] = 0 THEN MkF(t, a[2], a[3])
       ELSE IF s[1] THEN MkF(t, s[2], e) ELSE OOM
FNeg(a) == <<a[1], 0 - a[2], a[3]>>
FSub(t, a, b) == FAdd(t, a, FNeg(b))
FMul(t, a, b) == LET p == SMul(a[2], b[2]) IN IF p[1] THEN MkF(t, p[2], a[3] + b[3]) ELSE OOM
\* exact quotient when the divisor's mantissa divides the dividend's, else out of model
FDiv(t, a, b) == IF b[2] = 0 THEN Err("DIV0")
                 ELSE LET mb == Abs(b[2])                                  \* divisor mantissa, positive
                          ma == IF b[2] < 0 THEN 0 - a[2] ELSE a[2]         \* sign moved to the dividend
                      IN IF ma % mb = 0 THEN MkF(t, ma \div mb, a[3] - b[3])
                         ELSE LET sh == ShiftL(ma, 20)       \* quotients like 1/8 * odd: try with 20 more bits
                              IN IF sh[1] /\ sh[2] % mb = 0 THEN MkF(t, sh[2] \div mb, a[3] - 20 - b[3]) ELSE OOM

\* a ^ b: like division the result is floating point (SINGLE unless an operand is DOUBLE).  In the
\* model: integral exponents of small magnitude by repeated exact multiplication; a negative
\* exponent only when the power is a power of two (its reciprocal is then dyadic); 0 to a
\* negative power divides by zero; everything else (roots, large exponents) is out of model.
RECURSIVE PowN(_, _, _)
PowN(t, a, k) == IF k = 0 THEN <<t, 1, 0>>
                 ELSE LET q == PowN(t, a, k - 1) IN IF q[1] \in {"ERR", "OOM"} THEN q ELSE FMul(t, q, a)
FPow(t, a, b) ==
    IF b[2] # 0 /\ b[3] < 0 THEN OOM                       \* fractional exponent
    ELSE LET sh == ShiftL(b[2], b[3]) IN
         IF ~sh[1] \/ sh[2] > 8 \/ sh[2] < -8 THEN OOM
         ELSE LET n == sh[2] IN
              IF n >= 0 THEN PowN(t, a, n)
              ELSE IF a[2] = 0 THEN Err("DIV0")
              \* the reciprocal is dyadic only for a power of two; computed directly (the positive power may
              \* overflow where the reciprocal merely becomes tiny: MkF puts very small exponents out of model)
              ELSE IF a[2] # 1 /\ a[2] # -1 THEN OOM
              ELSE MkF(t, IF a[2] = 1 \/ n % 2 = 0 THEN 1 ELSE -1, 0 - (a[3] * (0 - n)))

\* sign of a - b for floats: -1, 0, 1 (2 = out of model)
FCmp(a, b) ==
    IF Sgn(a[2]) # Sgn(b[2]) THEN (IF Sgn(a[2]) < Sgn(b[2]) THEN -1 ELSE 1)
    ELSE IF a[2] = 0 THEN 0
    ELSE LET ka == BitLen(a[2]) + a[3]      \* position of the leading bit
             kb == BitLen(b[2]) + b[3]
         IN IF ka # kb THEN (IF (ka < kb) = (a[2] > 0) THEN -1 ELSE 1)
            ELSE LET d == FSub("D", <<"D", a[2], a[3]>>, <<"D", b[2], b[3]>>)
                 IN IF IsOOM(d) THEN 2 ELSE Sgn(d[2])

\* integer -> float (exact or OOM)
IntToF(t, n) == IF n = MinL THEN MkF(t, -1, 31) ELSE MkF(t, n, 0)
\* float -> integer value, round half to even: <<ok, n>>; ok = FALSE: out of LONG range
FRound(a) ==
    IF a[3] >= 0 THEN ShiftL(a[2], a[3])
    ELSE IF a[3] < -31 THEN <<TRUE, 0>>
    ELSE LET d == IF a[3] = -31 THEN 0 ELSE Pow2(0 - a[3])         \* 2^31 does not fit: |m| < 2^30 there, so it rounds to 0
         IN IF d = 0 THEN <<TRUE, 0>>
            ELSE LET am == Abs(a[2])
                     q == am \div d
                     r == am % d
                     up == r > d - r \/ (r = d - r /\ q % 2 = 1)
                     n == IF up THEN q + 1 ELSE q
                 IN <<TRUE, IF a[2] < 0 THEN 0 - n ELSE n>>
\* floor of a float: <<ok, n>>
FFloor(a) ==
    IF a[3] >= 0 THEN ShiftL(a[2], a[3])
    ELSE IF a[3] < -31 THEN <<TRUE, IF a[2] < 0 THEN -1 ELSE 0>>
    ELSE LET d == IF a[3] = -31 THEN 0 ELSE Pow2(0 - a[3])
         IN IF d = 0 THEN <<TRUE, IF a[2] < 0 THEN -1 ELSE 0>>
            ELSE <<TRUE, a[2] \div d>>          \* TLA+ \div floors

\* ---- conversion of a value to a type (assignment, argument passing, operand widening) ----
Conv(v, t) ==
    IF Bad(v) THEN v
    ELSE IF v[1] = "T" THEN (IF t = "T" THEN v ELSE Err("TYPE"))
    ELSE IF t = "T" THEN Err("TYPE")
    ELSE IF IsIntK(v[1]) THEN
         (IF IsIntK(t) THEN MkInt(t, v[2]) ELSE IntToF(t, v[2]))
    ELSE \* v is a float
         IF IsFltK(t) THEN MkF(t, v[2], v[3])
         ELSE LET r == FRound(v) IN IF r[1] THEN MkInt(t, r[2]) ELSE Err("OVF")

\* the wider of two numeric kinds I < L < S < D
Rank(t) == CASE t = "I" -> 1 [] t = "L" -> 2 [] t = "S" -> 3 [] t = "D" -> 4 [] OTHER -> 0
Wider(t, u) == IF Rank(t) >= Rank(u) THEN t ELSE u

Default(t) == CASE t = "T" -> StrV(<<>>) [] t = "I" -> IntV(0) [] t = "L" -> LngV(0) [] OTHER -> <<t, 0, 0>>

\* ---- binary operators (operands already evaluated, neither Bad) ------------------------
ArithInt(op, t, a, b) ==
    LET r == CASE op = "add" -> SAdd(a, b) [] op = "sub" -> SSub(a, b) [] op = "mul" -> SMul(a, b)
    IN IF r[1] THEN MkInt(t, r[2]) ELSE Err("OVF")

\* bitwise operators on two's complement, via arithmetic on non-negative parts
RECURSIVE BitOp(_, _, _, _)
\* combine the low k bits of x and y (both >= 0) with truth table f (a 4-element sequence)
BitOp(f, x, y, k) == IF k = 0 THEN 0
                     ELSE f[2 * (x % 2) + (y % 2) + 1] + 2 * BitOp(f, x \div 2, y \div 2, k - 1)
\* 31-bit magnitude view: n >= 0 -> n, n < 0 -> n - MinL (the low 31 bits), sign handled separately
Low31(n) == IF n >= 0 THEN n ELSE n - MinL
SignBit(n) == IF n < 0 THEN 1 ELSE 0
Bitwise(f, a, b) ==
    LET low == BitOp(f, Low31(a), Low31(b), 31)
        sb == f[2 * SignBit(a) + SignBit(b) + 1]
    IN IF sb = 1 THEN low + MinL ELSE low
TT(op) == CASE op = "and" -> <<0, 0, 0, 1>> [] op = "or" -> <<0, 1, 1, 1>> [] op = "xor" -> <<0, 1, 1, 0>>
            [] op = "eqv" -> <<1, 0, 0, 1>> [] op = "imp" -> <<1, 1, 0, 1>>

CmpRes(op, c) == \* c = sign of a - b
    LET tr == CASE op = "eq" -> c = 0 [] op = "ne" -> c # 0 [] op = "lt" -> c < 0
                [] op = "gt" -> c > 0 [] op = "le" -> c <= 0 [] op = "ge" -> c >= 0
    IN IntV(IF tr THEN -1 ELSE 0)

RECURSIVE SeqCmp(_, _)
SeqCmp(s, u) == IF s = <<>> THEN (IF u = <<>> THEN 0 ELSE -1)
                ELSE IF u = <<>> THEN 1
                ELSE IF Head(s) < Head(u) THEN -1 ELSE IF Head(s) > Head(u) THEN 1
                ELSE SeqCmp(Tail(s), Tail(u))

IsCmp(op) == op \in {"eq", "ne", "lt", "gt", "le", "ge"}
IsLogic(op) == op \in {"and", "or", "xor", "eqv", "imp"}

\* result type of a binary operator on operand kinds (numeric operands)
BinType(op, ta, tb) ==
    IF IsCmp(op) THEN "I"
    ELSE IF IsLogic(op) \/ op \in {"mod", "idiv"} THEN (IF ta = "I" /\ tb = "I" THEN "I" ELSE "L")
    ELSE IF op \in {"div", "pow"} THEN (IF Wider(ta, tb) = "D" THEN "D" ELSE "S")
    ELSE Wider(ta, tb)

BinOp(op, a, b) ==
    IF Bad(a) THEN a ELSE IF Bad(b) THEN b
    ELSE IF a[1] = "T" \/ b[1] = "T" THEN
        IF a[1] # "T" \/ b[1] # "T" THEN Err("TYPE")
        ELSE IF op = "add" THEN StrV(a[2] \o b[2])
        ELSE IF IsCmp(op) THEN CmpRes(op, SeqCmp(a[2], b[2]))
        ELSE Err("TYPE")
    ELSE LET t == BinType(op, a[1], b[1]) IN
      IF IsCmp(op) THEN
          LET w == Wider(a[1], b[1]) IN
          IF IsIntK(w) THEN CmpRes(op, IF a[2] < b[2] THEN -1 ELSE IF a[2] > b[2] THEN 1 ELSE 0)
          ELSE LET fa == Conv(a, w) fb == Conv(b, w) IN
               IF Bad(fa) THEN fa ELSE IF Bad(fb) THEN fb
               ELSE LET c == FCmp(fa, fb) IN IF c = 2 THEN OOM ELSE CmpRes(op, c)
      ELSE IF IsLogic(op) \/ op \in {"mod", "idiv"} THEN
          LET ia == Conv(a, t) ib == Conv(b, t) IN
          IF Bad(ia) THEN ia ELSE IF Bad(ib) THEN ib
          ELSE IF IsLogic(op) THEN <<t, Bitwise(TT(op), ia[2], ib[2]), 0>>
          ELSE IF ib[2] = 0 THEN Err("DIV0")
          ELSE IF op = "idiv" THEN (IF ia[2] = Lo(t) /\ ib[2] = -1 THEN Err("OVF") ELSE MkInt(t, TDiv(ia[2], ib[2])))
          ELSE (IF ib[2] = -1 THEN <<t, 0, 0>> ELSE <<t, TMod(ia[2], ib[2]), 0>>)
      ELSE IF IsIntK(t) THEN ArithInt(op, t, a[2], b[2])
      ELSE LET fa == Conv(a, t) fb == Conv(b, t) IN
           IF Bad(fa) THEN fa ELSE IF Bad(fb) THEN fb
           ELSE CASE op = "add" -> FAdd(t, fa, fb) [] op = "sub" -> FSub(t, fa, fb)
                  [] op = "mul" -> FMul(t, fa, fb) [] op = "div" -> FDiv(t, fa, fb)
                  [] op = "pow" -> FPow(t, fa, fb)

UnOp(op, a) ==
    IF Bad(a) THEN a
    ELSE IF a[1] = "T" THEN Err("TYPE")
    ELSE IF op = "neg" THEN
         (IF IsIntK(a[1]) THEN (IF a[2] = Lo(a[1]) THEN Err("OVF") ELSE <<a[1], 0 - a[2], 0>>) ELSE FNeg(a))
    ELSE \* not
         LET t == IF a[1] = "I" THEN "I" ELSE "L"
             ia == Conv(a, t)
         IN IF Bad(ia) THEN ia
            ELSE <<t, IF ia[2] >= 0 THEN (0 - ia[2]) - 1 ELSE 0 - (ia[2] + 1), 0>>     \* -x-1 without overflow

\* observational equality of two values: INTEGER and LONG cannot be told apart by any output
SameObs(a, b) == \/ a = b
                 \/ IsIntK(a[1]) /\ IsIntK(b[1]) /\ a[2] = b[2]
=============================================================================
