------------------------------- MODULE DebugMap -------------------------------
(***************************************************************************)
(* Well-formedness of the debug map of a module compiled with -g           *)
(* (property C11), as predicates over                                      *)
(*   starts    the instruction start addresses (decoded from the bytes)    *)
(*   codelen   length of the code section                                  *)
(*   stmts     statement records [s, e (code range), ss, se (source        *)
(*             offsets), ln (recorded line), cls (node class)]             *)
(*   routines  procedure records [s, e, frame (address of its FRAME        *)
(*             instruction), last (address after its last RET)]            *)
(*   nl        offsets of the newline characters of the source text        *)
(*   lines     per source line [kinds (statement kinds the generator wrote *)
(*             on it), parent (header line of the enclosing block, 0)]     *)
(*   exempt    instruction addresses outside any statement by design: the  *)
(*             module prologue and the main program's FRAME / final RET    *)
(***************************************************************************)
EXTENDS Integers, Sequences, FiniteSets, TLC, Json, IOUtils
Cases == JsonDeserialize(IOEnv.CASES)
VARIABLES cid, verdict
vars == <<cid, verdict>>
C == Cases[cid]

IsClause(i) == C.stmts[i].cls \in {"SimpleCaseClause", "RangeCaseClause", "CompareCaseClause"}
NonEmpty == {i \in 1..Len(C.stmts) : C.stmts[i].e > C.stmts[i].s /\ ~IsClause(i)}
Covers(i, a) == C.stmts[i].s <= a /\ a < C.stmts[i].e
Span(i) == C.stmts[i].e - C.stmts[i].s
StartsSet == {C.starts[i] : i \in 1..Len(C.starts)}
LineOf(off) == 1 + Cardinality({j \in 1..Len(C.nl) : C.nl[j] < off})
LineStart(l) == IF l = 1 THEN 0 ELSE C.nl[l - 1] + 1
LineEnd(l) == IF l <= Len(C.nl) THEN C.nl[l] ELSE C.srclen

RECURSIVE AncOrSelf(_, _)
AncOrSelf(a, l) == l # 0 /\ (a = l \/ (l <= Len(C.lines) /\ AncOrSelf(a, C.lines[l].parent)))

\* which statement kinds a record class may stand for
KindsOf(cls) ==
    CASE cls \in {"AssignmentStmt", "ReturnValueSetStmt"} -> {"let", "for"}
      [] cls = "PrintStmt" -> {"print"}
      [] cls = "IfBeginStmt" -> {"if"} [] cls = "ElseIfStmt" -> {"elseif"} [] cls = "ElseStmt" -> {"else"} [] cls = "EndIfStmt" -> {"endif"}
      [] cls = "IfStmt" -> {"ifline"} [] cls = "ElseClause" -> {"ifline"}
      [] cls = "ForStmt" -> {"for"} [] cls = "NextStmt" -> {"next"}
      [] cls = "WhileStmt" -> {"while"} [] cls = "WendStmt" -> {"wend"}
      [] cls = "DoStmt" -> {"do"} [] cls = "LoopStmt" -> {"loop"}
      [] cls = "SelectStmt" -> {"select"} [] cls \in {"CaseStmt", "SimpleCaseClause", "RangeCaseClause", "CompareCaseClause"} -> {"case"}
      [] cls = "CaseElseStmt" -> {"caseelse"} [] cls = "EndSelectStmt" -> {"endselect"}
      [] cls = "GotoStmt" -> {"goto"} [] cls = "GosubStmt" -> {"gosub"} [] cls = "ReturnStmt" -> {"return"}
      [] cls \in {"ExitForStmt", "ExitDoStmt", "ExitSubStmt", "ExitFunctionStmt"} -> {"exit"}
      [] cls = "EndStmt" -> {"end"} [] cls = "CallStmt" -> {"callsub"}
      [] cls \in {"ClsStmt", "BeepStmt", "ColorStmt", "SoundStmt", "PlayStmt", "LocateStmt"} -> {"dev"}
      [] cls \in {"DimStmt", "ConstStmt", "DeclareStmt", "TypeStmt", "EndTypeStmt", "DefTypeStmt"} -> {"dim", "nop", "decl"}
      [] cls = "SubStmt" -> {"sub"} [] cls = "EndSubStmt" -> {"endsub"}
      [] cls = "FunctionStmt" -> {"function"} [] cls = "EndFunctionStmt" -> {"endfunction"}
      [] OTHER -> {"?"}

Clause ==
    LET ne == NonEmpty IN
    \* 1. ranges begin and end on instruction boundaries
    IF \E i \in 1..Len(C.stmts) : C.stmts[i].s \notin (StartsSet \cup {C.codelen}) \/ C.stmts[i].e \notin (StartsSet \cup {C.codelen})
         THEN "stmt-off-boundary"
    ELSE IF \E r \in 1..Len(C.routines) : C.routines[r].s \notin StartsSet \/ C.routines[r].e \notin (StartsSet \cup {C.codelen})
         THEN "routine-off-boundary"
    \* 2. every instruction of a body is covered, with a unique innermost statement
    ELSE IF \E k \in 1..Len(C.starts) : C.starts[k] \notin {C.exempt[j] : j \in 1..Len(C.exempt)} /\ ~\E i \in ne : Covers(i, C.starts[k])
         THEN "instruction-without-statement"
    ELSE IF \E k \in 1..Len(C.starts) :
              LET cov == {i \in ne : Covers(i, C.starts[k])} IN
              \* (the clauses of a CASE line are recorded separately but are parts of that statement)
              cov # {} /\ LET m == CHOOSE i \in cov : \A j \in cov : Span(i) <= Span(j) IN
                          \E j \in cov : j # m /\ Span(j) = Span(m) /\ <<C.stmts[j].ss, C.stmts[j].se>> # <<C.stmts[m].ss, C.stmts[m].se>>
         THEN "innermost-not-unique"
    \* 3. ranges are nested or disjoint, and nest the way the source blocks nest
    ELSE IF \E i, j \in ne : i # j /\ C.stmts[i].s < C.stmts[j].s /\ C.stmts[j].s < C.stmts[i].e /\ C.stmts[i].e < C.stmts[j].e
         THEN "ranges-overlap"
    ELSE IF \E i, j \in ne : i # j /\ C.stmts[i].s <= C.stmts[j].s /\ C.stmts[j].e <= C.stmts[i].e /\ Span(j) < Span(i)
                              /\ ~AncOrSelf(C.stmts[i].ln, C.stmts[j].ln)
         THEN "nesting-unlike-source"
    \* 4. each procedure record covers exactly that procedure's code
    ELSE IF \E r \in 1..Len(C.routines) : C.routines[r].s # C.routines[r].frame \/ C.routines[r].e # C.routines[r].last
         THEN "routine-range"
    \* 5. recorded line and source extract
    ELSE IF \E i \in 1..Len(C.stmts) : C.stmts[i].ln # LineOf(C.stmts[i].ss) THEN "line-number"
    ELSE IF \E i \in 1..Len(C.stmts) : C.stmts[i].se <= C.stmts[i].ss \/ C.stmts[i].ss < LineStart(C.stmts[i].ln)
                                        \/ C.stmts[i].se > LineEnd(C.stmts[i].ln) + 1 THEN "extract-outside-line"
    ELSE IF \E i \in 1..Len(C.stmts) : C.stmts[i].ln > Len(C.lines) \/ KindsOf(C.stmts[i].cls) \cap {C.lines[C.stmts[i].ln].kinds[k] : k \in 1..Len(C.lines[C.stmts[i].ln].kinds)} = {}
         THEN "statement-kind"
    \* 6. code is laid out in source order: of two statements with disjoint ranges the one whose code
    \*    comes first is the one written first
    \*    (a statement may own a second range, e.g. the jump that ends the arm before an ELSEIF: its first range counts)
    ELSE IF LET first == {i \in ne : \A k \in ne : C.stmts[k].ss = C.stmts[i].ss => C.stmts[i].s <= C.stmts[k].s} IN
            \E i, j \in first : C.stmts[i].ss < C.stmts[j].ss /\ C.stmts[i].s > C.stmts[j].s THEN "order-unlike-source"
    ELSE "ok"

Init == cid \in 1..Len(Cases) /\ verdict = "run"
Step == verdict = "run" /\ verdict' = Clause /\ UNCHANGED cid
Spec == Init /\ [][Step]_vars
Report == verdict # "run" => PrintT(ToJson([tid |-> C.tid, verdict |-> verdict, l |-> 0]))
=============================================================================
