"""Typed generator of QBASIC programs: builds the AST first (the shape QB.tla interprets,
DESIGN.md Appendix D) and unparses it to text, so that no parser stands between the text
and the AST.  Static types are computed while generating (to steer generation only).

Rules that keep programs inside the specified semantics (DESIGN.md Appendix A):
  * loops are bounded by construction (dedicated counters the body never assigns)
  * user FUNCTIONs called inside expressions only touch their own locals/parameters
    (they may PRINT), so the replay-log evaluation of QB.tla equals sequential evaluation
  * no construct marked [amb] is produced (LONG mixed with SINGLE, `\\` / MOD / logical
    operators on floats, float conditions, case values of another type, ...)
"""
import random

SUF = {'I': '%', 'L': '&', 'S': '!', 'D': '#', 'T': '$'}
RANK = {'I': 1, 'L': 2, 'S': 3, 'D': 4}
TYPE_NAME = {'I': 'INTEGER', 'L': 'LONG', 'S': 'SINGLE', 'D': 'DOUBLE', 'T': 'STRING'}


def S(s):
    return [ord(c) for c in s]


def wider(a, b):
    return a if RANK[a] >= RANK[b] else b


def bin_type(op, ta, tb):
    if op in ('eq', 'ne', 'lt', 'gt', 'le', 'ge'):
        return 'I'
    if op in ('and', 'or', 'xor', 'eqv', 'imp', 'mod', 'idiv'):
        return 'I' if ta == 'I' and tb == 'I' else 'L'
    if op in ('div', 'pow'):
        return 'D' if wider(ta, tb) == 'D' else 'S'
    return wider(ta, tb)


OPTXT = {'add': '+', 'sub': '-', 'mul': '*', 'div': '/', 'pow': '^', 'idiv': '\\', 'mod': 'MOD', 'eq': '=', 'ne': '<>',
         'lt': '<', 'gt': '>', 'le': '<=', 'ge': '>=', 'and': 'AND', 'or': 'OR', 'xor': 'XOR', 'eqv': 'EQV',
         'imp': 'IMP'}
# binding strength for minimal-but-safe parenthesisation (we parenthesise every nested binary operand)


class Skip(Exception):
    """nothing suitable in scope: the caller falls back to something simpler"""


class Var:
    def __init__(self, name, t, rank=0, bounds=None, rec=None, kind='local'):
        self.name = name      # with suffix
        self.t = t            # type letter, or 'R' for a record
        self.rank = rank
        self.bounds = bounds  # list of (lo, hi) python ints for static arrays
        self.rec = rec        # record type name
        self.kind = kind


class Gen:
    def __init__(self, seed, size=14, depth=3, features=None):
        self.rng = random.Random(seed)
        self.size = size
        self.maxdepth = depth
        self.feat = features or {}
        self.features_pow = self.feat.get('pow', True)
        self.label_n = 0
        self.procs = []
        self.shared = []
        self.types = []
        self.consts = []
        self.line = 0
        self.uid = 0

    # ---------------------------------------------------------------- helpers
    def fresh(self, stem):
        self.uid += 1
        return '%s%d' % (stem, self.uid)

    def pick(self, xs):
        if not xs:
            raise Skip()
        return xs[self.rng.randrange(len(xs))]

    def chance(self, p):
        return self.rng.random() < p

    # ---------------------------------------------------------------- literals
    def lit(self, t):
        r = self.rng
        if t == 'I':
            v = self.pick([0, 1, 2, 3, 5, 7, 10, -1, -2, -7, 100, 255, r.randint(-50, 50), r.randint(-300, 300),
                           32767, -32768, 16384] if self.chance(0.25) else [0, 1, 2, 3, 4, 5, 7, 9, -1, -3, r.randint(-20, 20)])
            if v == -32768:
                return {'k': 'bin', 'o': 'sub', 'l': {'k': 'num', 't': 'I', 'v': -32767}, 'r': {'k': 'num', 't': 'I', 'v': 1}}
            return {'k': 'num', 't': 'I', 'v': v}
        if t == 'L':
            v = self.pick([0, 1, -1, 40000, 70000, -70000, 100000, r.randint(-200000, 200000), 2147483647, 65536])
            return {'k': 'num', 't': 'L', 'v': v}
        if t in 'SD':
            m = self.pick([1, 3, 5, -3, 7, 9, 11, -5, 15, 25, r.randint(-99, 99) | 1])
            e = self.pick([0, -1, -2, -3, 1, 2, 0, -1])
            if m == 0:
                m, e = 1, 0
            while m % 2 == 0:
                m //= 2
                e += 1
            return {'k': 'num', 't': t, 'm': m, 'e': e}
        if t == 'T':
            s = self.pick(['', 'a', 'ab', 'Hello', 'x y', 'QB', 'zz top', 'A1', ' pad ', 'abcABC'])
            return {'k': 'str', 'b': S(s)}
        raise ValueError(t)

    # ---------------------------------------------------------------- expressions
    def vars_of(self, sc, pred):
        return [v for v in sc['vars'] if pred(v)]

    def lvalue(self, sc, t, depth=0, for_write=False):
        """an lvalue node of leaf type t, or None"""
        cands = []
        for v in sc['vars']:
            if for_write and v.name in sc['frozen']:
                continue
            if v.t == t and v.rank == 0:
                cands.append(('scalar', v, None))
            elif v.t == t and v.rank > 0:
                cands.append(('elem', v, None))
            elif v.t == 'R':
                for fn, ft in self.rec_fields(v.rec):
                    if ft == t:
                        cands.append(('field' if v.rank == 0 else 'elemfield', v, fn))
        if not cands:
            return None
        kind, v, fn = self.pick(cands)
        ix = []
        if v.rank > 0:
            for (lo, hi) in v.bounds:
                ix.append(self.index_expr(sc, lo, hi, depth))
        return {'k': 'lv', 'n': v.name, 'ix': ix, 'fl': [fn] if fn else [], 't': t}

    def index_expr(self, sc, lo, hi, depth):
        # mostly in range; out of range rarely (a legal program that fails at run time)
        if self.chance(0.03):
            return {'k': 'num', 't': 'I', 'v': hi + 1}
        if self.chance(0.6) or depth >= self.maxdepth:
            return {'k': 'num', 't': 'I', 'v': self.rng.randint(lo, hi)}
        # a small variable-based index: (v MOD n) + lo  is [amb]-free for non-negative v only -> use counters
        cs = [v for v in sc['vars'] if v.name in sc['counters'] and v.t == 'I']
        if cs:
            c = self.pick(cs)
            span = hi - lo + 1
            inner = {'k': 'bin', 'o': 'mod', 'l': {'k': 'lv', 'n': c.name, 'ix': [], 'fl': [], 't': 'I'},
                     'r': {'k': 'num', 't': 'I', 'v': span}}
            return {'k': 'bin', 'o': 'add', 'l': {'k': 'par', 'a': inner}, 'r': {'k': 'num', 't': 'I', 'v': lo}}
        return {'k': 'num', 't': 'I', 'v': self.rng.randint(lo, hi)}

    def rec_fields(self, rec):
        for t in self.types:
            if t['n'] == rec:
                return [(f['n'], f['t']) for f in t['fields']]
        return []

    def etype(self, e):
        k = e['k']
        if k == 'num':
            return e['t']
        if k == 'str':
            return 'T'
        if k in ('lv', 'cst'):
            return e['t']
        if k == 'par':
            return self.etype(e['a'])
        if k == 'un':
            t = self.etype(e['a'])
            if e['o'] == 'not':
                return 'I' if t == 'I' else 'L'
            return t
        if k == 'bin':
            ta, tb = self.etype(e['l']), self.etype(e['r'])
            if ta == 'T':
                return 'T' if e['o'] == 'add' else 'I'
            return bin_type(e['o'], ta, tb)
        if k == 'fn':
            return e['t']
        if k == 'call':
            return e['t']
        raise ValueError(k)

    def num_expr(self, sc, t, depth=0):
        """numeric expression whose static type is exactly t"""
        r = self.rng
        if depth >= self.maxdepth or self.chance(0.3):
            if self.chance(0.55):
                lv = self.lvalue(sc, t, depth)
                if lv:
                    return lv
            cs = [c for c in sc['consts'] if c['t'] == t]
            if cs and self.chance(0.2):
                c = self.pick(cs)
                return {'k': 'cst', 'n': c['n'], 't': t}
            return self.lit(t)
        choice = r.random()
        if choice < 0.45:
            # arithmetic with operand types whose join is t
            op = self.pick(['add', 'sub', 'add', 'sub', 'mul'])
            ta = self.sub_type(t)
            tb = t if ta != t else self.sub_type(t, allow_same=True)
            if self.chance(0.5):
                ta, tb = tb, ta
            if wider(ta, tb) != t:
                ta = t
            l = self.num_expr(sc, ta, depth + 1)
            rr = self.num_expr(sc, tb, depth + 1)
            if op == 'mul':
                # keep products small: one literal factor
                rr = {'k': 'num', 't': tb, 'v': self.pick([2, 3, -2, 10])} if tb in 'IL' else \
                     {'k': 'num', 't': tb, 'm': self.pick([1, 3, -1]), 'e': self.pick([0, 1, -1])}
            return {'k': 'bin', 'o': op, 'l': self.paren(l), 'r': self.paren(rr)}
        if choice < 0.6 and t in 'IL':
            op = self.pick(['idiv', 'mod', 'and', 'or', 'xor'] + (['eqv', 'imp'] if self.chance(0.2) else []))
            ta = t
            tb = 'I' if t == 'L' and self.chance(0.4) else t
            if self.chance(0.5):
                ta, tb = tb, ta
            l = self.num_expr(sc, ta, depth + 1)
            rr = self.num_expr(sc, tb, depth + 1)
            if op in ('idiv', 'mod') and self.chance(0.85):
                rr = {'k': 'num', 't': tb, 'v': self.pick([2, 3, 4, 7, -2, -3, 10])}
            return {'k': 'bin', 'o': op, 'l': self.paren(l), 'r': self.paren(rr)}
        if choice < 0.7 and t == 'I':
            # comparison
            ct = self.pick(['I', 'I', 'L', 'S', 'T'])
            op = self.pick(['eq', 'ne', 'lt', 'gt', 'le', 'ge'])
            if ct == 'T':
                l, rr = self.str_expr(sc, depth + 1), self.str_expr(sc, depth + 1)
            else:
                l, rr = self.num_expr(sc, ct, depth + 1), self.num_expr(sc, ct, depth + 1)
            return {'k': 'bin', 'o': op, 'l': self.paren(l), 'r': self.paren(rr)}
        if choice < 0.76:
            a = self.num_expr(sc, t, depth + 1)
            if t in 'IL' and self.chance(0.4):
                return {'k': 'un', 'o': 'not', 'a': self.paren(a, unary=True)}
            return {'k': 'un', 'o': 'neg', 'a': self.paren(a, unary=True)}
        if choice < 0.8 and t in 'SD' and self.features_pow and self.chance(0.5):
            # a power with a small integral exponent; the base is always parenthesised (-3 ^ 2 is -(3 ^ 2))
            bt = self.pick(['I', t] if t == 'S' else ['D', 'D', 'I'])
            base = self.num_expr(sc, bt, depth + 1)
            ex = {'k': 'num', 't': 'I', 'v': self.pick([2, 3, 2, 0, 1, -1, -2, 4])}
            if ex['v'] < 0 and self.chance(0.5):
                ex = {'k': 'par', 'a': ex}
            return {'k': 'bin', 'o': 'pow', 'l': {'k': 'par', 'a': base}, 'r': ex}
        if choice < 0.8 and t in 'SD' and self.chance(0.5):
            # exact division: by a power of two
            l = self.num_expr(sc, t, depth + 1)
            return {'k': 'bin', 'o': 'div', 'l': self.paren(l), 'r': {'k': 'num', 't': 'I', 'v': self.pick([2, 4, 8])}}
        if choice < 0.9:
            f = self.builtin_num(sc, t, depth + 1)
            if f:
                return f
        if choice < 0.97 and sc['funcs']:
            fs = [f for f in sc['funcs'] if f['rt'] == t]
            if fs:
                try:
                    return self.call_expr(sc, self.pick(fs), depth + 1)
                except Skip:
                    pass
        lv = self.lvalue(sc, t, depth)
        return lv or self.lit(t)

    def sub_type(self, t, allow_same=False):
        opts = {'I': ['I'], 'L': ['I', 'L', 'L'], 'S': ['I', 'S', 'S'], 'D': ['I', 'S', 'D', 'D', 'L']}[t]
        return self.pick(opts)

    def paren(self, e, unary=False):
        if e['k'] in ('bin', 'un') or (e['k'] == 'num' and (e.get('v', 1) < 0 or e.get('m', 1) < 0)):
            return {'k': 'par', 'a': e}
        return e

    def builtin_num(self, sc, t, depth):
        if t == 'I':
            w = self.pick(['asc', 'cint', 'abs', 'cint'])
            if w == 'asc':
                s = self.str_expr(sc, depth)
                return {'k': 'fn', 'n': 'asc', 't': 'I', 'args': [s]}
            if w == 'cint':
                a = self.num_expr(sc, self.pick(['S', 'I', 'S']), depth)
                return {'k': 'fn', 'n': 'cint', 't': 'I', 'args': [a]}
            return {'k': 'fn', 'n': 'abs', 't': 'I', 'args': [self.num_expr(sc, 'I', depth)]}
        if t == 'L':
            w = self.pick(['len', 'clng', 'instr', 'abs', 'ubound'])
            if w == 'len':
                return {'k': 'fn', 'n': 'len', 't': 'L', 'args': [self.str_expr(sc, depth)]}
            if w == 'clng':
                return {'k': 'fn', 'n': 'clng', 't': 'L', 'args': [self.num_expr(sc, self.pick(['S', 'L', 'I']), depth)]}
            if w == 'instr':
                return {'k': 'fn', 'n': 'instr', 't': 'L', 'args': [self.str_expr(sc, depth),
                                                                  {'k': 'str', 'b': S(self.pick(['a', 'b', 'x', 'lo', ' ']))}]}
            if w == 'ubound':
                arrs = [v for v in sc['vars'] if v.rank > 0]
                if arrs:
                    v = self.pick(arrs)
                    d = self.rng.randint(1, v.rank)
                    return {'k': 'fn', 'n': self.pick(['lbound', 'ubound']), 't': 'L', 'arr': v.name, 'rank': v.rank,
                            'args': [{'k': 'num', 't': 'I', 'v': d}]}
            return {'k': 'fn', 'n': 'abs', 't': 'L', 'args': [self.num_expr(sc, 'L', depth)]}
        if t in 'SD':
            return {'k': 'fn', 'n': 'abs', 't': t, 'args': [self.num_expr(sc, t, depth)]}
        return None

    def str_expr(self, sc, depth=0):
        if depth >= self.maxdepth or self.chance(0.35):
            if self.chance(0.6):
                lv = self.lvalue(sc, 'T', depth)
                if lv:
                    return lv
            return self.lit('T')
        c = self.rng.random()
        if c < 0.3:
            return {'k': 'bin', 'o': 'add', 'l': self.str_expr(sc, depth + 1), 'r': self.str_expr(sc, depth + 1)}
        if c < 0.85:
            w = self.pick(['left$', 'right$', 'mid$', 'mid$', 'ucase$', 'lcase$', 'ltrim$', 'rtrim$', 'space$', 'string$',
                           'chr$', 'str$'])
            s = self.str_expr(sc, depth + 1)
            n = {'k': 'num', 't': 'I', 'v': self.rng.randint(0, 5)}
            if w in ('left$', 'right$'):
                if w == 'right$' and n['v'] == 0:
                    n['v'] = 1
                return {'k': 'fn', 'n': w, 't': 'T', 'args': [s, n]}
            if w == 'mid$':
                st = {'k': 'num', 't': 'I', 'v': self.rng.randint(1, 4)}
                return {'k': 'fn', 'n': w, 't': 'T', 'args': [s, st] + ([n] if self.chance(0.6) else [])}
            if w in ('ucase$', 'lcase$', 'ltrim$', 'rtrim$'):
                return {'k': 'fn', 'n': w, 't': 'T', 'args': [s]}
            if w == 'space$':
                return {'k': 'fn', 'n': w, 't': 'T', 'args': [n]}
            if w == 'string$':
                return {'k': 'fn', 'n': w, 't': 'T', 'args': [n, self.pick([{'k': 'num', 't': 'I', 'v': 42}, {'k': 'str', 'b': S('xy')}])]}
            if w == 'chr$':
                return {'k': 'fn', 'n': w, 't': 'T', 'args': [{'k': 'num', 't': 'I', 'v': self.rng.randint(33, 126)}]}
            if w == 'str$':
                return {'k': 'fn', 'n': w, 't': 'T', 'args': [self.num_expr(sc, self.pick(['I', 'L']), depth + 1)]}
        if sc['funcs']:
            fs = [f for f in sc['funcs'] if f['rt'] == 'T']
            if fs:
                try:
                    return self.call_expr(sc, self.pick(fs), depth + 1)
                except Skip:
                    pass
        return self.lit('T')

    def expr(self, sc, t, depth=0):
        return self.str_expr(sc, depth) if t == 'T' else self.num_expr(sc, t, depth)

    def call_expr(self, sc, f, depth):
        args = self.args_for(sc, f, depth, in_expr=True)
        return {'k': 'call', 'n': f['n'], 'pi': f['pi'], 't': f['rt'], 'args': args}

    def args_for(self, sc, f, depth, in_expr=False):
        args = []
        for p in f['params']:
            if p.get('arr'):
                cands = [v for v in sc['vars'] if v.rank == p['rank'] and v.t == p['t'] and v.rec == p.get('rec')]
                v = self.pick(cands)
                args.append({'k': 'arr', 'n': v.name})
            elif p['t'] == 'R':
                cands = [v for v in sc['vars'] if v.t == 'R' and v.rec == p['rec'] and v.rank == 0]
                v = self.pick(cands)
                args.append({'k': 'lv', 'n': v.name, 'ix': [], 'fl': [], 't': 'R'})
            else:
                # by reference (an lvalue of exactly the type) or by value (any expression)
                lv = None
                if not in_expr and self.chance(0.5):
                    lv = self.lvalue(sc, p['t'], depth, for_write=True)
                if lv is not None:
                    args.append(lv)
                else:
                    e = self.expr(sc, p['t'] if p['t'] == 'T' else self.pick([p['t'], p['t'], 'I']), depth + 1)
                    if e['k'] in ('lv', 'cst'):
                        e = {'k': 'par', 'a': e}      # parenthesised: by value (a bare CONST name is [amb])
                    args.append(e)
        return args

    # ---------------------------------------------------------------- statements
    def new_label(self):
        self.label_n += 1
        return 'lb%d' % self.label_n

    def stmt_let(self, sc, depth):
        t = self.pick(['I', 'I', 'L', 'S', 'T', 'D'] if sc['wide'] else ['I', 'I', 'T', 'L'])
        lv = self.lvalue(sc, t, depth, for_write=True)
        if lv is None:
            return None
        if t == 'T':
            e = self.str_expr(sc, depth)
        else:
            src = self.pick([t, t, t, self.sub_type(t)])
            if t in 'IL' and sc['wide'] and self.chance(0.15):
                src = 'S'          # narrowing: rounds half to even
            e = self.num_expr(sc, src, depth)
        return {'k': 'let', 'lv': lv, 'e': e}

    def stmt_print(self, sc, depth):
        n = self.pick([1, 1, 2, 2, 3])
        items = []
        for i in range(n):
            t = self.pick(['I', 'I', 'L', 'S', 'T', 'T', 'D'] if sc['wide'] else ['I', 'T', 'L'])
            items.append({'k': 'e', 'e': self.expr(sc, t, depth)})
            if i < n - 1 or self.chance(0.15):
                items.append({'k': 'sep', 's': self.pick([';', ';', ','])})
        return {'k': 'print', 'items': items}

    def cond(self, sc, depth):
        """an INTEGER-valued condition: comparison or logical combination of comparisons"""
        def cmp_():
            ct = self.pick(['I', 'I', 'L', 'S', 'T'] if sc['wide'] else ['I', 'I', 'T'])
            op = self.pick(['eq', 'ne', 'lt', 'gt', 'le', 'ge'])
            if ct == 'T':
                l, r = self.str_expr(sc, depth + 1), self.str_expr(sc, depth + 1)
            else:
                l, r = self.num_expr(sc, ct, depth + 1), self.num_expr(sc, ct, depth + 1)
            return {'k': 'bin', 'o': op, 'l': self.paren(l), 'r': self.paren(r)}
        c = cmp_()
        if self.chance(0.25):
            c = {'k': 'bin', 'o': self.pick(['and', 'or']), 'l': {'k': 'par', 'a': c}, 'r': {'k': 'par', 'a': cmp_()}}
        if self.chance(0.1):
            c = {'k': 'un', 'o': 'not', 'a': {'k': 'par', 'a': c}}
        return c

    def block(self, sc, n, depth):
        out = []
        for _ in range(n):
            s = self.stmt(sc, depth)
            if s is not None:
                out.append(s)
        return out

    def stmt_if(self, sc, depth):
        arms = [{'c': self.cond(sc, depth), 'body': self.block(sc, self.pick([0, 1, 1, 2]), depth + 1)}]
        while self.chance(0.3) and len(arms) < 3:
            arms.append({'c': self.cond(sc, depth), 'body': self.block(sc, self.pick([0, 1, 2]), depth + 1)})
        els = self.block(sc, self.pick([0, 1, 1, 2]), depth + 1) if self.chance(0.5) else []
        return {'k': 'if', 'arms': arms, 'els': els, 'hasels': bool(els) or self.chance(0.1)}

    def stmt_for(self, sc, depth):
        name = self.fresh('fi') + '%'
        t = 'I'
        if self.chance(0.15) and sc['wide']:
            t = self.pick(['L', 'S'])
            name = name[:-1] + SUF[t]
        v = Var(name, t)
        lo = self.rng.randint(-2, 3)
        n = self.rng.randint(0, 4)
        step = self.pick([1, 1, 1, 2, -1, -2])
        if step > 0:
            frm, to = lo, lo + n * step + self.pick([0, 0, 1]) if step > 1 else lo + n
        else:
            frm, to = lo + n * (-step), lo
        if self.chance(0.06):
            frm, to = to + (1 if step > 0 else -1) * 2, frm        # empty loop
        if self.chance(0.04) and t == 'I':
            frm, to, step = 32765, 32767, 1                        # ends at the type limit: overflow on the last NEXT
        mk = (lambda x: {'k': 'num', 't': t, 'v': x}) if t in 'IL' else (lambda x: {'k': 'num', 't': t, 'm': x if x % 2 else (x // 2 if x else 0), 'e': 0 if x % 2 or x == 0 else 1})
        if t not in 'IL':
            def mk(x):
                m, e = x, 0
                if m == 0:
                    return {'k': 'num', 't': t, 'm': 0, 'e': 0}
                while m % 2 == 0:
                    m //= 2
                    e += 1
                return {'k': 'num', 't': t, 'm': m, 'e': e}
        sc['vars'].append(v)
        sc['frozen'].add(name)
        sc['counters'].add(name)
        sc['loops'].append('for')
        body = self.block(sc, self.pick([1, 1, 2, 3]), depth + 1)
        if self.chance(0.2):
            body.append({'k': 'if', 'arms': [{'c': self.cond(sc, depth + 1), 'body': [{'k': 'exit', 'what': 'for'}]}], 'els': [], 'hasels': False})
        sc['loops'].pop()
        sc['counters'].discard(name)
        # the counter stays readable after the loop but is never assigned by generated code
        return {'k': 'for', 'v': {'k': 'lv', 'n': name, 'ix': [], 'fl': [], 't': t}, 'from': self.paren(mk(frm)), 'to': self.paren(mk(to)),
                'step': self.paren(mk(step)), 'hasstep': step != 1 or self.chance(0.2), 'nextvar': self.chance(0.5), 'body': body}

    def counted(self, sc, depth, kind):
        """WHILE / DO loop driven by a dedicated counter: returns [init, loop]"""
        name = self.fresh('wc') + '%'
        v = Var(name, 'I')
        sc['vars'].append(v)
        sc['frozen'].add(name)
        sc['counters'].add(name)
        n = self.rng.randint(0, 3)
        cv = {'k': 'lv', 'n': name, 'ix': [], 'fl': [], 't': 'I'}
        init = {'k': 'let', 'lv': cv, 'e': {'k': 'num', 't': 'I', 'v': 0}}
        inc = {'k': 'let', 'lv': cv, 'e': {'k': 'bin', 'o': 'add', 'l': cv, 'r': {'k': 'num', 't': 'I', 'v': 1}}}
        lt = {'k': 'bin', 'o': 'lt', 'l': cv, 'r': {'k': 'num', 't': 'I', 'v': n}}
        ge = {'k': 'bin', 'o': 'ge', 'l': cv, 'r': {'k': 'num', 't': 'I', 'v': n}}
        sc['loops'].append('do' if kind == 'do' else 'while')
        body = self.block(sc, self.pick([0, 1, 2]), depth + 1)
        if kind == 'do' and self.chance(0.2):
            body.append({'k': 'if', 'arms': [{'c': self.cond(sc, depth + 1), 'body': [{'k': 'exit', 'what': 'do'}]}], 'els': [], 'hasels': False})
        sc['loops'].pop()
        sc['counters'].discard(name)
        body = [inc] + body if self.chance(0.3) else body + [inc]
        dummy = {'k': 'num', 't': 'I', 'v': 0}
        if kind == 'while':
            loop = {'k': 'while', 'c': lt, 'body': body}
        else:
            form = self.pick(['prew', 'preu', 'postw', 'postu'])
            loop = {'k': 'do', 'pre': '', 'prec': dummy, 'post': '', 'postc': dummy, 'body': body}
            if form == 'prew':
                loop.update(pre='while', prec=lt)
            elif form == 'preu':
                loop.update(pre='until', prec=ge)
            elif form == 'postw':
                loop.update(post='while', postc=lt)
            else:
                loop.update(post='until', postc=ge)
        return [init, loop]

    def stmt_select(self, sc, depth):
        t = self.pick(['I', 'I', 'T', 'L'])
        e = self.expr(sc, t, depth + 1)
        cases = []
        for _ in range(self.rng.randint(1, 3)):
            cl = []
            for _ in range(self.pick([1, 1, 2])):
                k = self.pick(['v', 'v', 'range', 'is'])
                if t == 'T':
                    k = self.pick(['v', 'v', 'is'])
                if k == 'v':
                    cl.append({'k': 'v', 'v': self.lit(t)})
                elif k == 'range':
                    a = self.rng.randint(-5, 5)
                    b = a + self.rng.randint(0, 4)
                    hi = {'k': 'num', 't': t, 'v': b}
                    if self.chance(0.4):
                        # bounds of different numeric types: the same whole number as a SINGLE (whether a
                        # fractional bound is compared as written or converted to the selector's type first
                        # is not settled by the property, so fractions are not generated)
                        mant, bexp = b, 0
                        while mant and mant % 2 == 0:
                            mant //= 2
                            bexp += 1
                        hi = {'k': 'num', 't': 'S', 'm': mant, 'e': bexp}
                    cl.append({'k': 'range', 'lo': self.paren({'k': 'num', 't': t, 'v': a}), 'hi': self.paren(hi)})
                else:
                    cl.append({'k': 'is', 'o': self.pick(['lt', 'gt', 'le', 'ge', 'ne', 'eq']), 'v': self.lit(t)})
            cases.append({'cl': cl, 'body': self.block(sc, self.pick([0, 1, 1, 2]), depth + 1)})
        els = self.block(sc, self.pick([0, 1, 1]), depth + 1)
        return {'k': 'select', 'e': e, 'cases': cases, 'els': els}

    def stmt_call(self, sc, depth):
        subs = [f for f in sc['subs']]
        if not subs:
            return None
        f = self.pick(subs)
        return {'k': 'callsub', 'n': f['n'], 'pi': f['pi'], 'args': self.args_for(sc, f, depth), 'form': self.pick(['call', 'bare'])}

    def stmt_dev(self, sc, depth):
        w = self.pick(['cls', 'beep', 'color', 'sound'])
        if w == 'cls':
            return {'k': 'dev', 'op': 'cls', 'args': [], 'ats': []}
        if w == 'beep':
            return {'k': 'dev', 'op': 'beep', 'args': [], 'ats': []}
        if w == 'color':
            return {'k': 'dev', 'op': 'color', 'args': [self.num_expr(sc, self.pick(['I', 'S']), depth + 1), {'k': 'num', 't': 'I', 'v': self.rng.randint(0, 7)}], 'ats': ['I', 'I']}
        return {'k': 'dev', 'op': 'sound', 'args': [{'k': 'num', 't': 'I', 'v': self.rng.randint(37, 2000)}, self.num_expr(sc, self.pick(['I', 'L']), depth + 1)], 'ats': ['I', 'L']}

    def stmt(self, sc, depth):
        try:
            return self.stmt_(sc, depth)
        except Skip:
            return None

    def stmt_(self, sc, depth):
        if depth >= self.maxdepth:
            c = self.pick(['let', 'let', 'print', 'print', 'call'])
        else:
            c = self.pick(['let', 'let', 'let', 'print', 'print', 'print', 'if', 'if', 'for', 'while', 'do', 'select',
                           'call', 'call', 'dev', 'exitproc'])
        if c == 'let':
            return self.stmt_let(sc, depth)
        if c == 'print':
            return self.stmt_print(sc, depth)
        if c == 'if':
            return self.stmt_if(sc, depth)
        if c == 'for':
            return self.stmt_for(sc, depth)
        if c in ('while', 'do'):
            init, loop = self.counted(sc, depth, c)
            return {'k': 'seq', 'items': [init, loop]}
        if c == 'select':
            return self.stmt_select(sc, depth)
        if c == 'call':
            return self.stmt_call(sc, depth) or self.stmt_print(sc, depth)
        if c == 'dev':
            return self.stmt_dev(sc, depth)
        if c == 'exitproc' and sc['proc'] and self.chance(0.3):
            return {'k': 'if', 'arms': [{'c': self.cond(sc, depth), 'body': [{'k': 'exit', 'what': sc['proc']}]}], 'els': [], 'hasels': False}
        return self.stmt_let(sc, depth)

    # ---------------------------------------------------------------- declarations
    def declare_vars(self, sc, wide, n_scalars=5, arrays=True, records=True):
        vs = []
        types = ['I', 'I', 'L', 'S', 'T', 'T', 'D'] if wide else ['I', 'I', 'T', 'L']
        for _ in range(n_scalars):
            t = self.pick(types)
            vs.append(Var(self.fresh('v') + SUF[t], t))
        if arrays:
            for _ in range(self.pick([1, 1, 2])):
                t = self.pick(['I', 'L', 'T', 'S'] if wide else ['I', 'T'])
                rank = self.pick([1, 1, 2])
                bounds = []
                for _ in range(rank):
                    lo = self.pick([0, 0, 1, -2, 5])
                    bounds.append((lo, lo + self.rng.randint(1, 3)))
                vs.append(Var(self.fresh('a') + SUF[t], t, rank=rank, bounds=bounds))
        if records and self.types:
            rt = self.pick(self.types)
            vs.append(Var(self.fresh('r'), 'R', rec=rt['n']))
            if self.chance(0.5):
                lo = self.pick([0, 1])
                vs.append(Var(self.fresh('ra'), 'R', rank=1, bounds=[(lo, lo + 2)], rec=rt['n']))
        return vs

    def dim_stmts(self, vs, shared=False):
        out = []
        for v in vs:
            if v.rank > 0:
                dims = [{'lo': self.paren({'k': 'num', 't': 'I', 'v': lo}), 'hi': self.paren({'k': 'num', 't': 'I', 'v': hi}), 'haslo': lo != 0 or self.chance(0.3)} for lo, hi in v.bounds]
                out.append({'k': 'dim', 'n': v.name, 'dims': dims, 'rec': v.rec, 't': v.t, 'shared': shared})
            elif v.t == 'R':
                out.append({'k': 'nop', 'text': 'DIM %s%s AS %s' % ('SHARED ' if shared else '', v.name, v.rec)})
            elif shared:
                out.append({'k': 'nop', 'text': 'DIM SHARED %s' % v.name})
        return out

    def make_types(self):
        if not self.chance(0.6):
            return
        for i in range(self.pick([1, 1, 2])):
            fields = []
            for j in range(self.rng.randint(2, 3)):
                t = self.pick(['I', 'L', 'S', 'T', 'I'])
                fields.append({'n': 'f%d%s' % (j, 'abcde'[i]), 't': t})
            self.types.append({'n': 'rec' + 'abcde'[i], 'fields': fields})

    def make_proc(self, kind, idx, wide):
        name = ('sb%d' % idx) if kind == 'sub' else ('fn%d' % idx)
        rt = ''
        if kind == 'function':
            rt = self.pick(['I', 'I', 'L', 'T', 'S'] if wide else ['I', 'T'])
            name += SUF[rt]
        params = []
        for j in range(self.rng.randint(0, 3)):
            t = self.pick(['I', 'I', 'L', 'T', 'S'] if wide else ['I', 'T'])
            params.append({'n': 'p%d%s' % (j, SUF[t]), 't': t})
        if kind == 'sub' and self.types and self.chance(0.3) and self.feat.get('recparam', True):
            rt_ = self.pick(self.types)
            params.append({'n': 'pr', 't': 'R', 'rec': rt_['n']})
        return {'n': name, 'kind': kind, 'rt': rt, 'params': params, 'pi': idx, 'statics': [], 'body': []}

    def fill_proc(self, pr, wide, callable_funcs, callable_subs):
        sc = {'vars': [], 'frozen': set(), 'counters': set(), 'loops': [], 'consts': list(self.consts),
              'funcs': callable_funcs, 'subs': callable_subs, 'proc': pr['kind'], 'wide': wide}
        for p in pr['params']:
            sc['vars'].append(Var(p['n'], p['t'], rec=p.get('rec'), kind='param'))
        locs = self.declare_vars(sc, wide, n_scalars=self.rng.randint(1, 3), arrays=self.chance(0.4), records=False)
        sc['vars'] += locs
        if pr['kind'] == 'sub':
            # SUBs (never called from inside expressions) may also touch SHARED variables
            sc['vars'] += [v for v in self.shared]
        body = self.dim_stmts(locs)
        n = self.rng.randint(1, 4)
        body += self.block(sc, n, 1)
        if pr['kind'] == 'function':
            body.append({'k': 'let', 'lv': {'k': 'lv', 'n': pr['n'], 'ix': [], 'fl': [], 't': pr['rt']}, 'e': self.expr(sc, pr['rt'], 1)})
        pr['body'] = body

    # ---------------------------------------------------------------- program
    def program(self, wide=True):
        self.make_types()
        # CONSTs
        for i in range(self.pick([0, 1, 2])):
            t = self.pick(['I', 'I', 'T', 'S'] if wide else ['I', 'T'])
            e = self.lit(t)
            # a constant without type character has the type of its value (CONST g = "hello" is a string)
            bare = e['k'] in ('num', 'str') and self.chance(0.5)
            self.consts.append({'n': ('kq%d' % i) if bare else 'k%d%s' % (i, SUF[t]), 't': t, 'pi': 0, 'e': e})
        sc = {'vars': [], 'frozen': set(), 'counters': set(), 'loops': [], 'consts': list(self.consts),
              'funcs': [], 'subs': [], 'proc': '', 'wide': wide}
        main_vars = self.declare_vars(sc, wide, n_scalars=self.rng.randint(3, 6))
        shared = []
        for _ in range(self.pick([0, 1, 2])):
            t = self.pick(['I', 'L', 'T'])
            shared.append(Var(self.fresh('g') + SUF[t], t, kind='shared'))
        self.shared = shared
        sc['vars'] = main_vars + shared
        nproc = self.pick([0, 1, 2, 2, 3])
        procs = []
        for i in range(nproc):
            kind = self.pick(['sub', 'function'])
            procs.append(self.make_proc(kind, i + 1, wide))
        # a procedure may call the ones defined before it (no mutual recursion); one may be self-recursive
        for i, pr in enumerate(procs):
            earlier = procs[:i]
            # a FUNCTION (callable from inside expressions) calls only FUNCTIONs, so that it never
            # touches SHARED state the calling statement may be reading
            self.fill_proc(pr, wide, [q for q in earlier if q['kind'] == 'function'],
                           [q for q in earlier if q['kind'] == 'sub'] if pr['kind'] == 'sub' else [])
        self.procs = procs
        sc['funcs'] = [q for q in procs if q['kind'] == 'function']
        sc['subs'] = [q for q in procs if q['kind'] == 'sub']
        main = self.dim_stmts(main_vars) + self.dim_stmts(shared, shared=True)
        body = self.block(sc, self.size, 0)
        # GOSUB sections
        gos = []
        if self.chance(0.4):
            lab = self.new_label()
            sec = [{'k': 'label', 'n': lab}] + self.block(sc, self.pick([1, 2]), 2) + [{'k': 'return'}]
            gos.append((lab, sec))
            for _ in range(self.pick([1, 2])):
                body.insert(self.rng.randint(0, len(body)), {'k': 'gosub', 'label': lab})
        if self.chance(0.25) and len(body) > 3:
            lab = self.new_label()
            i = self.rng.randint(0, len(body) - 2)
            j = self.rng.randint(i + 1, len(body))
            body.insert(j, {'k': 'label', 'n': lab})
            body.insert(i, {'k': 'goto', 'label': lab})
        main += body
        if gos or self.chance(0.3):
            main.append({'k': 'end'})
        for lab, sec in gos:
            main += sec
        prog = {'types': self.types, 'consts': self.consts, 'shared': [v.name for v in shared], 'main': main,
                'procs': [{'n': p['n'], 'kind': p['kind'], 'rt': p['rt'], 'params': p['params'], 'statics': [], 'body': p['body']}
                          for p in procs]}
        prog['main'] = flatten(prog['main'])
        for p in prog['procs']:
            p['body'] = flatten(p['body'])
        return prog


def flatten(block):
    out = []
    for s in block:
        if s is None:
            continue
        if s['k'] == 'seq':
            out += flatten(s['items'])
            continue
        s = dict(s)
        if s['k'] == 'if':
            s['arms'] = [{'c': a['c'], 'body': flatten(a['body'])} for a in s['arms']]
            s['els'] = flatten(s['els'])
        elif s['k'] in ('for', 'while', 'do'):
            s['body'] = flatten(s['body'])
        elif s['k'] == 'select':
            s['cases'] = [{'cl': c['cl'], 'body': flatten(c['body'])} for c in s['cases']]
            s['els'] = flatten(s['els'])
        out.append(s)
    return out


# ------------------------------------------------------------------------------------ unparser
def num_text(e):
    t = e['t']
    if t in 'IL':
        v = e['v']
        s = str(v)
        if t == 'L' and -32768 <= v <= 32767:
            s += '&'
        if t == 'I' and False:
            s += '%'
        return s
    if e.get('txt'):
        # a decimal spelling whose value is the given float (e.g. 0.1 for the SINGLE 13421773 * 2^-27)
        return e['txt']
    m, ex = e['m'], e['e']
    from fractions import Fraction
    val = Fraction(m) * (Fraction(2) ** ex)
    # exact decimal text of a dyadic rational
    num, den = val.numerator, val.denominator
    sign = '-' if num < 0 else ''
    num = abs(num)
    ip = num // den
    rem = num % den
    frac = ''
    while rem:
        rem *= 10
        frac += str(rem // den)
        rem %= den
    s = sign + str(ip) + ('.' + frac if frac else '')
    if t == 'S':
        if not frac:
            s += '!'
    else:
        s += '#'
    return s


def expr_text(e):
    k = e['k']
    if k == 'num':
        return num_text(e)
    if k == 'str':
        return '"%s"' % ''.join(chr(c) for c in e['b'])
    if k == 'cst':
        return e['n']
    if k == 'lv':
        s = e['n']
        if e['ix']:
            s += '(' + ', '.join(expr_text(x) for x in e['ix']) + ')'
        for f in e['fl']:
            s += '.' + f
        return s
    if k == 'arr':
        return e['n'] + '()'
    if k == 'par':
        return '(' + expr_text(e['a']) + ')'
    if k == 'un':
        if e['o'] == 'not':
            return 'NOT ' + expr_text(e['a'])
        return '-' + expr_text(e['a'])
    if k == 'bin':
        return '%s %s %s' % (expr_text(e['l']), OPTXT[e['o']], expr_text(e['r']))
    if k == 'fn':
        if e['n'] == 'err':
            return 'ERR'
        if e['n'] in ('lbound', 'ubound'):
            return '%s(%s, %s)' % (e['n'].upper(), e['arr'], expr_text(e['args'][0]))
        return '%s(%s)' % (e['n'].upper(), ', '.join(expr_text(a) for a in e['args']))
    if k == 'call':
        if not e['args']:
            return e['n']
        return '%s(%s)' % (e['n'], ', '.join(expr_text(a) for a in e['args']))
    raise ValueError(k)


class Unparser:
    def __init__(self, prog, style=None):
        self.prog = prog
        self.lines = []
        self.style = style or {}
        self.lineinfo = []          # per line: statement kinds written on it, header line of the enclosing block
        self.parent = 0

    def emit(self, text, indent, kind='decl', extra=()):
        self.lines.append('  ' * indent + text)
        self.lineinfo.append({'kinds': [kind] + list(extra), 'parent': self.parent})
        return len(self.lines)

    def sub_block(self, blk, indent, header):
        saved = self.parent
        self.parent = header
        try:
            self.block(blk, indent)
        finally:
            self.parent = saved

    def simple_text(self, s):
        k = s['k']
        if k == 'let':
            return '%s%s = %s' % ('LET ' if self.style.get('let') else '', expr_text(s['lv']), expr_text(s['e']))
        if k == 'print':
            parts = []
            for it in s['items']:
                parts.append(it['s'] if it['k'] == 'sep' else expr_text(it['e']))
            txt = 'PRINT'
            for p in parts:
                txt += (p if p in (';', ',') else ' ' + p)
            return txt
        if k == 'goto':
            return 'GOTO ' + s['label']
        if k == 'gosub':
            return 'GOSUB ' + s['label']
        if k == 'return':
            return 'RETURN'
        if k == 'exit':
            return 'EXIT ' + s['what'].upper()
        if k == 'end':
            return 'END'
        if k == 'onerror':
            if s['mode'] == 'goto':
                return 'ON ERROR GOTO ' + s['label']
            return 'ON ERROR RESUME NEXT' if s['mode'] == 'next' else 'ON ERROR GOTO 0'
        if k == 'resume':
            return 'RESUME NEXT' if s['next'] else 'RESUME'
        if k == 'callsub':
            args = ', '.join(expr_text(a) for a in s['args'])
            # `name (a) = (b)` is an assignment to an array element in QBASIC, not a call with a comparison
            # as its argument: a bare call whose argument list starts with a parenthesis and contains `=`
            # is written with CALL
            ambiguous = args.startswith('(') and '=' in args
            if s.get('form') == 'call' or ambiguous:
                return 'CALL %s%s' % (s['n'], '(' + args + ')' if args else '')
            return ('%s %s' % (s['n'], args)).rstrip()
        if k == 'dev':
            op = s['op']
            a = [expr_text(x) for x in s['args']]
            if op in ('cls', 'beep'):
                return op.upper()
            return '%s %s' % (op.upper(), ', '.join(a))
        if k == 'nop':
            return s['text']
        if k == 'dim':
            dims = []
            for d in s['dims']:
                dims.append('%s TO %s' % (expr_text(d['lo']), expr_text(d['hi'])) if d['haslo'] else expr_text(d['hi']))
            if s.get('rec'):
                return 'DIM %s%s(%s) AS %s' % ('SHARED ' if s.get('shared') else '', s['n'], ', '.join(dims), s['rec'])
            return 'DIM %s%s(%s)' % ('SHARED ' if s.get('shared') else '', s['n'], ', '.join(dims))
        return None

    def block(self, blk, indent):
        for s in blk:
            self.stmt(s, indent)

    def stmt(self, s, ind):
        k = s['k']
        st = self.simple_text(s)
        if st is not None:
            s['ln'] = self.emit(st, ind, k)
            return
        if k == 'label':
            s['ln'] = self.emit(s['n'] + ':', 0, 'label')
        elif k == 'if' and s.get('line'):
            # single-line IF: every statement of it shares the line
            t = 'IF %s THEN %s' % (expr_text(s['arms'][0]['c']), ': '.join(self.simple_text(x) for x in s['arms'][0]['body']))
            if s['els']:
                t += ' ELSE ' + ': '.join(self.simple_text(x) for x in s['els'])
            s['ln'] = self.emit(t, ind, 'ifline', [x['k'] for x in s['arms'][0]['body'] + s['els']])
            s['arms'][0]['ln'] = s['ln']
            for x in s['arms'][0]['body'] + s['els']:
                x['ln'] = s['ln']
        elif k == 'if':
            s['ln'] = self.emit('IF %s THEN' % expr_text(s['arms'][0]['c']), ind, 'if')
            s['arms'][0]['ln'] = s['ln']
            self.sub_block(s['arms'][0]['body'], ind + 1, s['ln'])
            saved = self.parent
            self.parent = s['ln']
            for a in s['arms'][1:]:
                a['ln'] = self.emit('ELSEIF %s THEN' % expr_text(a['c']), ind, 'elseif')
                self.sub_block(a['body'], ind + 1, a['ln'])
            if s['els'] or s.get('hasels'):
                el = self.emit('ELSE', ind, 'else')
                self.sub_block(s['els'], ind + 1, el)
            self.emit('END IF', ind, 'endif')
            self.parent = saved
        elif k == 'for':
            t = 'FOR %s = %s TO %s' % (s['v']['n'], expr_text(s['from']), expr_text(s['to']))
            if s.get('hasstep'):
                t += ' STEP ' + expr_text(s['step'])
            s['ln'] = self.emit(t, ind, 'for')
            self.sub_block(s['body'], ind + 1, s['ln'])
            saved = self.parent
            self.parent = s['ln']
            s['nextln'] = self.emit('NEXT' + (' ' + s['v']['n'] if s.get('nextvar') else ''), ind, 'next')
            self.parent = saved
        elif k == 'while':
            s['ln'] = self.emit('WHILE ' + expr_text(s['c']), ind, 'while')
            self.sub_block(s['body'], ind + 1, s['ln'])
            saved = self.parent
            self.parent = s['ln']
            self.emit('WEND', ind, 'wend')
            self.parent = saved
        elif k == 'do':
            t = 'DO'
            if s['pre']:
                t += ' %s %s' % (s['pre'].upper(), expr_text(s['prec']))
            s['ln'] = self.emit(t, ind, 'do')
            self.sub_block(s['body'], ind + 1, s['ln'])
            t = 'LOOP'
            if s['post']:
                t += ' %s %s' % (s['post'].upper(), expr_text(s['postc']))
            saved = self.parent
            self.parent = s['ln']
            s['loopln'] = self.emit(t, ind, 'loop')
            self.parent = saved
        elif k == 'select':
            s['ln'] = self.emit('SELECT CASE ' + expr_text(s['e']), ind, 'select')
            saved = self.parent
            self.parent = s['ln']
            for c in s['cases']:
                cl = []
                for x in c['cl']:
                    if x['k'] == 'v':
                        cl.append(expr_text(x['v']))
                    elif x['k'] == 'range':
                        cl.append('%s TO %s' % (expr_text(x['lo']), expr_text(x['hi'])))
                    else:
                        cl.append('IS %s %s' % (OPTXT[x['o']], expr_text(x['v'])))
                c['ln'] = self.emit('CASE ' + ', '.join(cl), ind, 'case')
                self.sub_block(c['body'], ind + 1, c['ln'])
            ce = self.emit('CASE ELSE', ind, 'caseelse')
            self.sub_block(s['els'], ind + 1, ce)
            self.emit('END SELECT', ind, 'endselect')
            self.parent = saved
        else:
            raise ValueError(k)

    def text(self):
        p = self.prog
        for t in p['types']:
            self.emit('TYPE ' + t['n'], 0)
            for f in t['fields']:
                self.emit('%s AS %s' % (f['n'], TYPE_NAME[f['t']]), 1)
            self.emit('END TYPE', 0)
        for pr in p['procs']:
            ps = []
            for q in pr['params']:
                if q['t'] == 'R':
                    ps.append('%s AS %s' % (q['n'], q['rec']))
                else:
                    ps.append(q['n'])
            self.emit('DECLARE %s %s (%s)' % (pr['kind'].upper(), pr['n'], ', '.join(ps)), 0)
        for c in p['consts']:
            self.emit('CONST %s = %s' % (c['n'], expr_text(c['e'])), 0)
        self.block(p['main'], 0)
        for pr in p['procs']:
            ps = []
            for q in pr['params']:
                if q['t'] == 'R':
                    ps.append('%s AS %s' % (q['n'], q['rec']))
                else:
                    ps.append(q['n'])
            hl = self.emit('%s %s%s' % (pr['kind'].upper(), pr['n'], ' (' + ', '.join(ps) + ')' if ps else ''), 0, pr['kind'])
            pr['ln'] = hl
            self.sub_block(pr['body'], 1, hl)
            self.parent = hl
            pr['endln'] = self.emit('END ' + pr['kind'].upper(), 0, 'end' + pr['kind'])
            self.parent = 0
        return '\n'.join(self.lines) + '\n'


def strip_for_tlc(prog):
    """the AST as TLC gets it: only the fields QB.tla reads, every statement with its line"""
    def ex(e):
        k = e['k']
        if k == 'num':
            return dict(e)
        if k == 'str':
            return {'k': 'str', 'b': e['b']}
        if k == 'cst':
            return {'k': 'cst', 'n': e['n'], 't': e['t']}
        if k == 'lv':
            return {'k': 'lv', 'n': e['n'], 'ix': [ex(x) for x in e['ix']], 'fl': e['fl'], 't': e['t']}
        if k == 'arr':
            return {'k': 'arr', 'n': e['n']}
        if k == 'par':
            return {'k': 'par', 'a': ex(e['a'])}
        if k == 'un':
            return {'k': 'un', 'o': e['o'], 'a': ex(e['a'])}
        if k == 'bin':
            return {'k': 'bin', 'o': e['o'], 'l': ex(e['l']), 'r': ex(e['r'])}
        if k == 'fn':
            d = {'k': 'fn', 'n': e['n'], 'args': [ex(a) for a in e['args']]}
            if 'arr' in e:
                d['arr'] = e['arr']
                d['rank'] = e['rank']
            return d
        if k == 'call':
            return {'k': 'call', 'pi': e['pi'], 'args': [ex(a) for a in e['args']]}
        raise ValueError(k)

    def st(s):
        k = s['k']
        ln = s.get('ln', 0)
        if k == 'let':
            return {'k': 'let', 'lv': ex(s['lv']), 'e': ex(s['e']), 'ln': ln}
        if k == 'print':
            return {'k': 'print', 'ln': ln, 'items': [{'k': 'sep', 's': i['s']} if i['k'] == 'sep' else {'k': 'e', 'e': ex(i['e'])} for i in s['items']]}
        if k == 'dev':
            return {'k': 'dev', 'op': s['op'], 'args': [ex(a) for a in s['args']], 'ats': s['ats'], 'ln': ln}
        if k == 'if':
            return {'k': 'if', 'ln': ln, 'arms': [{'c': ex(a['c']), 'body': blk(a['body']), 'ln': a.get('ln', ln)} for a in s['arms']], 'els': blk(s['els'])}
        if k == 'for':
            return {'k': 'for', 'ln': ln, 'nextln': s.get('nextln', ln), 'v': ex(s['v']), 'from': ex(s['from']), 'to': ex(s['to']), 'step': ex(s['step']), 'body': blk(s['body'])}
        if k == 'while':
            return {'k': 'while', 'ln': ln, 'c': ex(s['c']), 'body': blk(s['body'])}
        if k == 'do':
            return {'k': 'do', 'ln': ln, 'loopln': s.get('loopln', ln), 'pre': s['pre'], 'prec': ex(s['prec']), 'post': s['post'], 'postc': ex(s['postc']), 'body': blk(s['body'])}
        if k == 'select':
            def cl(x):
                if x['k'] == 'v':
                    return {'k': 'v', 'v': ex(x['v'])}
                if x['k'] == 'range':
                    return {'k': 'range', 'lo': ex(x['lo']), 'hi': ex(x['hi'])}
                return {'k': 'is', 'o': x['o'], 'v': ex(x['v'])}
            return {'k': 'select', 'ln': ln, 'e': ex(s['e']), 'cases': [{'cl': [cl(x) for x in c['cl']], 'body': blk(c['body']), 'ln': c.get('ln', ln)} for c in s['cases']], 'els': blk(s['els'])}
        if k in ('goto', 'gosub'):
            return {'k': k, 'label': s['label'], 'ln': ln}
        if k == 'label':
            return {'k': 'label', 'n': s['n'], 'ln': ln}
        if k in ('return', 'end', 'nop'):
            return {'k': k, 'ln': ln}
        if k == 'onerror':
            return {'k': 'onerror', 'mode': s['mode'], 'label': s.get('label', ''), 'ln': ln}
        if k == 'resume':
            return {'k': 'resume', 'next': s['next'], 'ln': ln}
        if k == 'exit':
            return {'k': 'exit', 'what': s['what'], 'ln': ln}
        if k == 'callsub':
            return {'k': 'callsub', 'pi': s['pi'], 'args': [ex(a) for a in s['args']], 'ln': ln}
        if k == 'dim':
            return {'k': 'dim', 'n': s['n'], 'ln': ln, 'dims': [{'lo': ex(d['lo']), 'hi': ex(d['hi'])} for d in s['dims']]}
        raise ValueError(k)

    def blk(b):
        return [st(s) for s in b]
    return {'main': blk(prog['main']),
            'errcodes': prog.get('errcodes', {'DIV0': 0}),
            'shared': prog['shared'],
            'consts': [{'n': c['n'], 'pi': c['pi'], 'e': ex(c['e'])} for c in prog['consts']],
            'procs': [{'n': p['n'], 'kind': p['kind'], 'rt': p['rt'] or 'I', 'statics': p['statics'],
                       'params': [{'n': q['n'], 't': q['t']} for q in p['params']], 'body': blk(p['body'])} for p in prog['procs']]}


def generate(seed, size=14, depth=3, wide=True, features=None):
    g = Gen(seed, size=size, depth=depth, features=features)
    prog = g.program(wide=wide)
    text = Unparser(prog).text()
    return prog, text, strip_for_tlc(prog)


def generate_info(seed, size=14, depth=3, wide=True, features=None):
    """like generate(), plus the per-line facts of the unparser (statement kinds, enclosing block)"""
    g = Gen(seed, size=size, depth=depth, features=features)
    prog = g.program(wide=wide)
    u = Unparser(prog)
    text = u.text()
    return prog, text, strip_for_tlc(prog), u.lineinfo
