----------------------------- MODULE PrintText -----------------------------
(***************************************************************************)
(* The PRINT statement as a protocol machine (property C17).               *)
(*                                                                         *)
(* State: the item list still to be written, the text written so far (a   *)
(* sequence of byte codes) and the running column of this statement.       *)
(* One action per item kind, one for the end of the statement.             *)
(*                                                                         *)
(* An item is a record of uniform shape                                    *)
(*   [k |-> "num"|"str"|"semi"|"comma", t |-> "I"|"L"|"S"|"D"|"T"|"",      *)
(*    v |-> Int, b |-> byte sequence]                                       *)
(* For t \in {I,L} the number text is computed here from v.  For t \in      *)
(* {S,D} the numeral (without sign position and trailing blank) is carried *)
(* in b: it is data validated by NumText (C16), not by this module.        *)
(***************************************************************************)
EXTENDS Bytes

Zone == 14
Blank == BLANK
Minus == MINUS

RECURSIVE PosDigits(_)
PosDigits(n) == IF n < 10 THEN <<48 + n>> ELSE PosDigits(n \div 10) \o <<48 + (n % 10)>>

\* digits of |n| for n < 0 without ever negating n (TLC integers are 32 bit and
\* -(-2147483648) overflows)
RECURSIVE NegDigits(_)
NegDigits(n) == IF n > -10 THEN <<48 - n>>
                ELSE LET d == (10 - (n % 10)) % 10
                     IN NegDigits((n + d) \div 10) \o <<48 + d>>

\* number text of an integer: sign position (blank or minus) + decimal digits
IntText(n) == IF n >= 0 THEN <<Blank>> \o PosDigits(n) ELSE <<Minus>> \o NegDigits(n)

\* number text of a float item whose unsigned numeral is given in b; v < 0 means negative
FloatText(it) == (IF it.v < 0 THEN <<Minus>> ELSE <<Blank>>) \o it.b

NumText(it) == IF it.t \in {"I", "L"} THEN IntText(it.v) ELSE FloatText(it)

Pad(n) == [i \in 1..n |-> Blank]

IsSep(it) == it.k \in {"semi", "comma"}

\* ---- the same meaning as a function (used by trace validation and by QB.tla)
RECURSIVE Render(_, _)
Render(items, acc) ==
    IF items = <<>> THEN acc
    ELSE LET it == Head(items)
             nxt == CASE it.k = "num"   -> acc \o NumText(it) \o <<Blank>>
                      [] it.k = "str"   -> acc \o it.b
                      [] it.k = "semi"  -> acc
                      [] it.k = "comma" -> acc \o Pad(Zone - (Len(acc) % Zone))
                      [] OTHER -> acc
         IN Render(Tail(items), nxt)

PrintText(items) ==
    LET body == Render(items, <<>>)
    IN IF items = <<>> \/ ~IsSep(items[Len(items)]) THEN body \o <<CR, LF>> ELSE body
=============================================================================
