#!/venv/bin/python
"""usage: tools/seedrecheck.py [names...]
Re-evaluates stored seeded changes against the CURRENT /repo: applies each patch to a scratch copy, runs the demo
(must fail) and the property's quick check (must print VIOLATION); writes /verif/seeded/RECHECK.json.
Faster than tools/seedstore.py: the repository suite is not re-run (it was, when the seed was stored)."""
import json, os, shutil, subprocess, sys, tempfile, glob
names = sys.argv[1:] or sorted(os.path.basename(d) for d in glob.glob('/verif/seeded/C*'))
out_path = '/verif/seeded/RECHECK.json'
res = json.load(open(out_path)) if os.path.exists(out_path) else {}
head = subprocess.check_output(['git', '-C', '/repo', 'log', '--format=%h', '-1']).decode().strip()
for n in names:
    sd = os.path.join('/verif/seeded', n)
    pid = n.split('-')[0]
    D = tempfile.mkdtemp(prefix='qbv-recheck-', dir='/tmp')
    try:
        subprocess.check_call('cp -r /repo/. %s/ && rm -rf %s/.git' % (D, D), shell=True)
        r = subprocess.run('patch -p1 -s < %s/patch.diff' % sd, shell=True, cwd=D, stdout=subprocess.PIPE, stderr=subprocess.STDOUT)
        if r.returncode != 0:
            res[n] = {'repo': head, 'applies': False}
            continue
        demo = subprocess.run(['/venv/bin/python', os.path.join(sd, 'demo.py')], cwd=D, env=dict(os.environ, PYTHONPATH=D),
                              stdout=subprocess.PIPE, stderr=subprocess.STDOUT).returncode
        env = dict(os.environ, QBEE_REPO=D)
        checks = [pid]
        meta = json.load(open(os.path.join(sd, 'meta.json')))
        # a seed may be visible to a neighbouring check as well (recorded when it was stored)
        for s in meta.get('violation_signatures', []):
            c = s.split('|')[0]
            if c not in checks:
                checks.append(c)
        sigs = []
        for c in checks:
            o = subprocess.run(['./check', c, '--tier', 'quick'], cwd='/verif', env=env, stdout=subprocess.PIPE, stderr=subprocess.STDOUT).stdout.decode()
            sigs += sorted({l.split('signature=')[1].split(' ')[0] for l in o.splitlines() if l.startswith('VIOLATION') and 'signature=' in l})
        res[n] = {'repo': head, 'applies': True, 'demo_fails': demo != 0, 'caught': bool(sigs), 'checks': checks, 'signatures': sigs[:8]}
    finally:
        shutil.rmtree(D, ignore_errors=True)
    json.dump(res, open(out_path, 'w'), indent=1, sort_keys=True)
    print(n, res[n].get('caught'), res[n].get('demo_fails'), (res[n].get('signatures') or [''])[0])
