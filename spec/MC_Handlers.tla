----------------------------- MODULE MC_Handlers -----------------------------
(* Enumerator of error-handling scenarios (property C10): a module body of up  *)
(* to K failing-capable statements, for each of them whether it fails in this  *)
(* run, and the handler regime.  Every scenario is printed; the harness builds *)
(* the program, QB.tla gives its meaning, the real VM is validated against it. *)
EXTENDS Integers, Sequences, TLC, Json
CONSTANTS K, NT        \* statements per scenario, number of statement templates
Forms == <<"resume-next", "resume", "mode-next", "goto-off", "handler-ends", "error-in-handler", "disarmed", "no-handler">>

VARIABLES body, form, closed
vars == <<body, form, closed>>
Init == body = <<>> /\ form \in 1..Len(Forms) /\ closed = FALSE
Add(t, f) == ~closed /\ Len(body) < K /\ body' = Append(body, <<t, f>>) /\ UNCHANGED <<form, closed>>
Close == ~closed /\ body # <<>> /\ closed' = TRUE /\ UNCHANGED <<body, form>>
Next == Close \/ \E t \in 1..NT, f \in BOOLEAN : Add(t, f)
Spec == Init /\ [][Next]_vars
\* scenarios in which nothing fails are kept too (the handler must stay silent)
Report == closed => PrintT(ToJson([body |-> body, form |-> Forms[form]]))
=============================================================================
