"""C04  Variables, array elements and record fields never overlap or leak.

Layout.tla states the storage layout (size of a declaration, cell of every access path) and
the theorem that distinct paths get distinct cells inside the frame; MC_Layout.tla checks it
for every sequence of K declarations over the declaration space and prints each scenario with
its cell map.  Each scenario becomes probe programs (declarations at module level, as fresh
locals of a recursive SUB, SHARED, STATIC, and passed by reference / by value): distinct
sentinels are written to every location, all are read back, each is overwritten in turn and
all are read again, never-assigned locations are read.  Trace_QB.tla (whose store is
disjoint by construction) validates every printed value in several configurations, and the
cell each store touched on the real VM is compared with Layout.tla's cell for that path.
"""
import json
import os
import random
import re

from lib import tlc, par, gen
from lib.common import Machinery
from checks import c01

LEVEL = 'model_checking'
MC_CFG = '''SPECIFICATION Spec
CONSTANT K = %d
CONSTANT Lows <- %s
CONSTANT MaxExt = %d
INVARIANT Inj
INVARIANT Rng
INVARIANT Hdr
INVARIANT SizesPositive
INVARIANT Report
CHECK_DEADLOCK FALSE
'''
TN = gen.TYPE_NAME
FT = ['I', 'L', 'T', 'S']          # field types of records, by field number


def S(s):
    return [ord(c) for c in s]


def parse_path(k):
    m = re.match(r'<<(\d+), <<([-\d, ]*)>>, (\d+)>>', k)
    subs = [int(x) for x in m.group(2).split(',')] if m.group(2).strip() else []
    return int(m.group(1)), subs, int(m.group(3))


def leaf_type(d, f):
    if d['kind'] in ('sc', 'arr', 'dyn'):
        return d['t']
    if d['kind'] == 'nrec':
        return 'I' if f == 1 else FT[(f - 2) % 4]
    return FT[(f - 1) % 4]


def lv(ds, path, prefix='d'):
    i, subs, f = path
    d = ds[i - 1]
    fl = []
    if d['kind'] in ('rec', 'arec'):
        fl = ['f%d' % f]
    elif d['kind'] == 'nrec':
        fl = ['a'] if f == 1 else ['b', 'f%d' % (f - 1)]
    return {'k': 'lv', 'n': '%s%d' % (prefix, i), 'ix': [{'k': 'num', 't': 'I', 'v': x} for x in subs], 'fl': fl, 't': leaf_type(d, f)}


def sentinel(t, j):
    if t == 'I':
        return {'k': 'num', 't': 'I', 'v': 100 + j}
    if t == 'L':
        return {'k': 'num', 't': 'L', 'v': 70000 + j}
    if t in 'SD':
        return {'k': 'num', 't': t, 'm': 2 * j + 1, 'e': -1}
    return {'k': 'str', 'b': S('s%d' % j)}


def types_for(ds):
    types = []
    for i, d in enumerate(ds, 1):
        if d['kind'] in ('rec', 'arec'):
            types.append({'n': 'rt%d' % i, 'fields': [{'n': 'f%d' % k, 't': FT[(k - 1) % 4]} for k in range(1, d['nf'] + 1)]})
        elif d['kind'] == 'nrec':
            types.append({'n': 'in%d' % i, 'fields': [{'n': 'f%d' % k, 't': FT[(k - 1) % 4]} for k in range(1, d['nf'] + 1)]})
            types.append({'n': 'rt%d' % i, 'fields': [{'n': 'a', 't': 'I'}, {'n': 'b', 't': 'R', 'rec': 'in%d' % i}]})
    return types


def decl_stmts(ds, kw='DIM', prefix='d'):
    out = []
    for i, d in enumerate(ds, 1):
        n = '%s%d' % (prefix, i)
        if d['kind'] == 'sc':
            out.append({'k': 'nop', 'text': '%s %s AS %s' % (kw, n, TN[d['t']])})
        elif d['kind'] in ('rec', 'nrec'):
            out.append({'k': 'nop', 'text': '%s %s AS rt%d' % (kw, n, i)})
        elif d['kind'] in ('arr', 'arec'):
            dims = [{'lo': {'k': 'num', 't': 'I', 'v': d['lo']}, 'hi': {'k': 'num', 't': 'I', 'v': d['lo'] + d['ext'] - 1}, 'haslo': True} for _ in range(d['rank'])]
            st = {'k': 'dim', 'n': n, 'dims': dims, 'rec': 'rt%d' % i if d['kind'] == 'arec' else None, 't': d['t'], 'astype': TN.get(d['t']), 'kw': kw}
            out.append(st)
        elif d['kind'] == 'dyn':
            dims = [{'lo': {'k': 'num', 't': 'I', 'v': 0}, 'hi': {'k': 'lv', 'n': 'dn%', 'ix': [], 'fl': [], 't': 'I'}, 'haslo': False}]
            out.append({'k': 'dim', 'n': n, 'dims': dims, 'rec': None, 't': 'L', 'astype': 'LONG', 'kw': kw})
    return out


def pr(e):
    return {'k': 'print', 'items': [{'k': 'e', 'e': e}]}


def probe_block(ds, paths, prefix='d', skip=None, salt=0):
    """write all (except `skip`), read all, overwrite some one by one and read all again"""
    out = []
    for j, p in enumerate(paths):
        if skip is not None and j == skip:
            continue
        l = lv(ds, p, prefix)
        out.append({'k': 'let', 'lv': l, 'e': sentinel(l['t'], j + salt)})
    for p in paths:
        out.append(pr(lv(ds, p, prefix)))
    step = max(1, len(paths) // 5)
    for j in range(0, len(paths), step):
        l = lv(ds, paths[j], prefix)
        out.append({'k': 'let', 'lv': l, 'e': sentinel(l['t'], 50 + j + salt)})
        for p in paths:
            out.append(pr(lv(ds, p, prefix)))
    return out


def dyn_paths(ds, paths):
    # a dynamic array has elements 0..1
    out = []
    for p in paths:
        if ds[p[0] - 1]['kind'] == 'dyn':
            out += [(p[0], [0], 0), (p[0], [1], 0)]
        else:
            out.append(p)
    return out


def make_program(ds, paths, variant, rng):
    has_dyn = any(d['kind'] == 'dyn' for d in ds)
    pre = [{'k': 'let', 'lv': {'k': 'lv', 'n': 'dn%', 'ix': [], 'fl': [], 't': 'I'}, 'e': {'k': 'num', 't': 'I', 'v': 1}}] if has_dyn else []
    paths = dyn_paths(ds, paths)
    types = types_for(ds)
    procs = []
    shared = []
    if variant == 'main':
        main = pre + decl_stmts(ds) + probe_block(ds, paths, skip=rng.randrange(len(paths)))
    elif variant == 'local':
        # fresh locals per activation, also when recursive
        body = pre + decl_stmts(ds)
        for p in paths:
            body.append(pr(lv(ds, p)))                       # must read as 0 / "" in every activation
        nn = {'k': 'lv', 'n': 'n%', 'ix': [], 'fl': [], 't': 'I'}
        for j, p in enumerate(paths):
            l = lv(ds, p)
            v = sentinel(l['t'], j)
            if l['t'] in 'IL':
                v = {'k': 'bin', 'o': 'add', 'l': v, 'r': nn}
            body.append({'k': 'let', 'lv': l, 'e': v})
        body.append({'k': 'if', 'arms': [{'c': {'k': 'bin', 'o': 'gt', 'l': nn, 'r': {'k': 'num', 't': 'I', 'v': 0}},
                                          'body': [{'k': 'callsub', 'n': 'prb', 'pi': 1, 'args': [{'k': 'bin', 'o': 'sub', 'l': nn, 'r': {'k': 'num', 't': 'I', 'v': 1}}], 'form': 'bare'}]}],
                     'els': [], 'hasels': False})
        for p in paths:
            body.append(pr(lv(ds, p)))
        procs = [{'n': 'prb', 'kind': 'sub', 'rt': '', 'params': [{'n': 'n%', 't': 'I'}], 'statics': [], 'body': body}]
        main = [{'k': 'callsub', 'n': 'prb', 'pi': 1, 'args': [{'k': 'num', 't': 'I', 'v': 1}], 'form': 'bare'},
                {'k': 'callsub', 'n': 'prb', 'pi': 1, 'args': [{'k': 'num', 't': 'I', 'v': 0}], 'form': 'call'}]
    elif variant == 'shared':
        if has_dyn:
            return None
        shared = ['d%d' % i for i in range(1, len(ds) + 1)]
        wr = [{'k': 'let', 'lv': lv(ds, p), 'e': sentinel(lv(ds, p)['t'], j)} for j, p in enumerate(paths)]
        rd = [pr(lv(ds, p)) for p in paths]
        procs = [{'n': 'wr', 'kind': 'sub', 'rt': '', 'params': [], 'statics': [], 'body': wr},
                 {'n': 'rd', 'kind': 'sub', 'rt': '', 'params': [], 'statics': [], 'body': rd}]
        main = decl_stmts(ds, kw='DIM SHARED') + [{'k': 'callsub', 'n': 'rd', 'pi': 2, 'args': [], 'form': 'bare'},
                                                 {'k': 'callsub', 'n': 'wr', 'pi': 1, 'args': [], 'form': 'bare'},
                                                 {'k': 'callsub', 'n': 'rd', 'pi': 2, 'args': [], 'form': 'bare'}] + rd
        l0 = lv(ds, paths[0])
        main += [{'k': 'let', 'lv': l0, 'e': sentinel(l0['t'], 77)}, {'k': 'callsub', 'n': 'rd', 'pi': 2, 'args': [], 'form': 'call'}]
    elif variant == 'static':
        scal = [i for i, d in enumerate(ds, 1) if d['kind'] == 'sc' and d['t'] in 'IL']
        if not scal:
            return None
        body = decl_stmts([d for d in ds if d['kind'] == 'sc'], kw='STATIC', prefix='q')
        sds = [d for d in ds if d['kind'] == 'sc']
        names = []
        for i, d in enumerate(sds, 1):
            l = {'k': 'lv', 'n': 'q%d' % i, 'ix': [], 'fl': [], 't': d['t']}
            names.append('q%d' % i)
            if d['t'] in 'ILSD':
                body.append({'k': 'let', 'lv': l, 'e': {'k': 'bin', 'o': 'add', 'l': l, 'r': {'k': 'num', 't': 'I', 'v': i}}})
            else:
                body.append({'k': 'let', 'lv': l, 'e': {'k': 'bin', 'o': 'add', 'l': l, 'r': {'k': 'str', 'b': S('x')}}})
            body.append(pr(l))
        loc = {'k': 'lv', 'n': 'tmp%', 'ix': [], 'fl': [], 't': 'I'}
        body += [pr(loc), {'k': 'let', 'lv': loc, 'e': {'k': 'num', 't': 'I', 'v': 9}}]
        procs = [{'n': 'acc', 'kind': 'sub', 'rt': '', 'params': [], 'statics': names, 'body': body}]
        main = [{'k': 'callsub', 'n': 'acc', 'pi': 1, 'args': [], 'form': 'bare'}] * 3
    elif variant == 'param':
        # each location passed by reference is changed by the callee; passed as an expression it is not
        main = pre + decl_stmts(ds) + [{'k': 'let', 'lv': lv(ds, p), 'e': sentinel(lv(ds, p)['t'], j)} for j, p in enumerate(paths)]
        procs = []
        pidx = {}
        for t in 'ILSDT':
            pidx[t] = len(procs) + 1
            x = {'k': 'lv', 'n': 'x' + gen.SUF[t], 'ix': [], 'fl': [], 't': t}
            newv = {'k': 'bin', 'o': 'add', 'l': x, 'r': ({'k': 'num', 't': 'I', 'v': 1} if t != 'T' else {'k': 'str', 'b': S('!')})}
            procs.append({'n': 'bump' + t.lower(), 'kind': 'sub', 'rt': '', 'params': [{'n': 'x' + gen.SUF[t], 't': t}], 'statics': [],
                          'body': [{'k': 'let', 'lv': x, 'e': newv}, pr(x)]})
        for j, p in enumerate(paths):
            l = lv(ds, p)
            byval = j % 3 == 2
            arg = {'k': 'par', 'a': l} if byval else l
            main.append({'k': 'callsub', 'n': 'bump' + l['t'].lower(), 'pi': pidx[l['t']], 'args': [arg], 'form': 'call' if j % 2 else 'bare'})
        main += [pr(lv(ds, p)) for p in paths]
    elif variant == 'recparam':
        # whole records (variables and array elements) passed by reference: the callee touches
        # several fields, repeatedly, and forwards the parameter
        recs = [(i, d) for i, d in enumerate(ds, 1) if d['kind'] in ('rec', 'nrec', 'arec')]
        if not recs:
            return None
        main = pre + decl_stmts(ds) + [{'k': 'let', 'lv': lv(ds, p), 'e': sentinel(lv(ds, p)['t'], j)} for j, p in enumerate(paths)]
        procs = []
        for i, d in recs:
            fields = [p for p in paths if p[0] == i and (not p[1] or p[1] == [d['lo']] * d['rank'])]
            def fl(p):
                l = lv(ds, p)
                return {'k': 'lv', 'n': 'p', 'ix': [], 'fl': l['fl'], 't': l['t']}
            body = []
            for rep in range(2):
                for p in reversed(fields):
                    body.append(pr(fl(p)))
            for j, p in enumerate(fields):
                body.append({'k': 'let', 'lv': fl(p), 'e': sentinel(fl(p)['t'], 30 + j)})
                body.append(pr(fl(fields[-1])))
            body.append({'k': 'if', 'arms': [{'c': {'k': 'bin', 'o': 'gt', 'l': {'k': 'lv', 'n': 'n%', 'ix': [], 'fl': [], 't': 'I'}, 'r': {'k': 'num', 't': 'I', 'v': 0}},
                                              'body': [{'k': 'callsub', 'n': 'tch%d' % i, 'pi': len(procs) + 1,
                                                        'args': [{'k': 'lv', 'n': 'p', 'ix': [], 'fl': [], 't': 'R'}, {'k': 'num', 't': 'I', 'v': 0}], 'form': 'call'}]}],
                         'els': [], 'hasels': False})
            for p in fields:
                body.append(pr(fl(p)))
            procs.append({'n': 'tch%d' % i, 'kind': 'sub', 'rt': '', 'params': [{'n': 'p', 't': 'R', 'rec': 'rt%d' % i}, {'n': 'n%', 't': 'I'}], 'statics': [], 'body': body})
            arg = {'k': 'lv', 'n': 'd%d' % i, 'ix': [{'k': 'num', 't': 'I', 'v': d['lo']}] * d['rank'] if d['kind'] == 'arec' else [], 'fl': [], 't': 'R'}
            main.append({'k': 'callsub', 'n': 'tch%d' % i, 'pi': len(procs), 'args': [arg, {'k': 'num', 't': 'I', 'v': 1}], 'form': 'bare'})
        main += [pr(lv(ds, p)) for p in paths]
    else:
        raise ValueError(variant)
    prog = {'types': types, 'consts': [], 'shared': shared, 'main': gen.flatten(main), 'procs': procs}
    for p_ in prog['procs']:
        p_['body'] = gen.flatten(p_['body'])
    return prog


class U(gen.Unparser):
    def simple_text(self, s):
        if s['k'] == 'dim' and s.get('kw'):
            dims = ['%s TO %s' % (gen.expr_text(d['lo']), gen.expr_text(d['hi'])) if d['haslo'] else gen.expr_text(d['hi']) for d in s['dims']]
            return '%s %s(%s) AS %s' % (s['kw'], s['n'], ', '.join(dims), s['rec'] or s['astype'])
        return super().simple_text(s)

    def text(self):
        # record fields of record type
        p = self.prog
        for t in p['types']:
            self.emit('TYPE ' + t['n'], 0)
            for f in t['fields']:
                self.emit('%s AS %s' % (f['n'], f['rec'] if f['t'] == 'R' else TN[f['t']]), 1)
            self.emit('END TYPE', 0)
        saved = p['types']
        p['types'] = []
        try:
            body = super().text()
        finally:
            p['types'] = saved
        return body


def static_text_fix(text, prog):
    return text


def _job(job):
    from lib import rec, qb, tick
    ds, paths, variant, seed, cells = job
    rng = random.Random(seed)
    prog = make_program(ds, paths, variant, rng)
    if prog is None:
        return None
    u = U(prog)
    text = u.text()
    if variant == 'static':
        # SUB acc STATIC-free form: variables are declared STATIC inside the SUB
        pass
    ast = gen.strip_for_tlc(prog)
    obs, fails = [], []
    cfgs = [(0, False), (2, True)] if seed % 2 else [(1, True), (2, False)]
    if variant == 'main':
        cfgs = [(0, False), (1, True), (2, False)]
    for (O, g) in cfgs:
        r = rec.run_recorded(text, O, g, budget=400000)
        if r['st'] != 'ok':
            fails.append({'cfg': [O, g], 'st': r['st'], 'detail': r['detail']})
            continue
        for e in r['events']:
            e.pop('text', None)
        obs.append({'cfg': 'O%d%s' % (O, 'g' if g else ''), 'events': r['events'], 'outcome': r['outcome']})
    layout = None
    if variant == 'main' and not fails:
        # cells touched by the first write of each path at -O0 (stores happen in path order)
        c = qb.compile_text(text, 0, False)
        mod = qb.load_module(c['bytes'])
        tr = tick.TickRecorder(mod, maxticks=100000)
        qb.run_module(mod, None, 100000, observer=tr)
        stores = [t['st'][0][2] for t in tr.ticks if t['ins']['b'] in ('storel', 'storeidxl', 'storeref') and t['st']]
        layout = stores
    return {'text': text, 'ast': ast, 'obs': obs, 'fails': fails, 'variant': variant, 'layout': layout, 'ds': ds, 'paths': paths, 'cells': cells, 'seed': seed}


def run(ctx):
    work = tlc.scratch_dir('qbv-c04-')
    try:
        _run(ctx, work)
    finally:
        import shutil
        shutil.rmtree(work, ignore_errors=True)


def _run(ctx, work):
    rng = random.Random(ctx.seed)
    r = tlc.run_tlc('MC_Layout', MC_CFG % (2, ctx.pick('LowsQuick', 'LowsFull'), ctx.pick(2, 3)), workers=8, timeout=1700, heap='8g')
    if r.error:
        if r.invariant:
            ctx.violation('model-invariant', r.invariant, {'tlc': r.error[:2000]})
            return
        raise Machinery('MC_Layout: ' + r.error[:1200])
    scen = r.printed
    r3 = tlc.run_tlc('MC_Layout', MC_CFG % (3, 'LowsFull', 3), workers=1, simulate=ctx.pick(150, 3000), depth=6, seed=ctx.seed, timeout=1700)
    if r3.error:
        if r3.invariant:
            ctx.violation('model-invariant', r3.invariant, {'tlc': r3.error[:2000]})
            return
        raise Machinery('MC_Layout simulate: ' + r3.error[:1200])
    scen3 = [b for b in r3.printed if len(b['ds']) == 3]
    rng.shuffle(scen)
    pick = scen[:ctx.pick(150, 6000)] + scen3[:ctx.pick(40, 2000)]
    jobs = []
    for i, sc in enumerate(pick):
        cells = {k: v for k, v in sc['cells'].items()}
        paths = sorted((parse_path(k) for k in cells), key=lambda p: cells['<<%d, <<%s>>, %d>>' % (p[0], ', '.join(map(str, p[1])), p[2])])
        if len(paths) > 40:
            continue
        variant = ['main', 'local', 'shared', 'param', 'recparam', 'static', 'main'][i % 7]
        jobs.append((sc['ds'], paths, variant, ctx.seed * 1000 + i, cells))
    res = [x for x in par.pmap(_job, jobs, chunk=2) if x is not None]
    cases = []
    nlayout = 0
    for rr in res:
        for f in rr['fails']:
            d = f['detail']
            trig = '%s@%s' % (d.get('type'), d.get('where')) if f['st'] == 'crash' else '%s:%s' % (f['st'], str(d.get('code', d.get('msg', '')))[:40])
            ctx.violation('rejected-or-crashed', trig, {'program': rr['text'], 'cfg': f['cfg'], 'detail': d, 'decls': rr['ds']})
        if rr['obs']:
            cases.append({'tid': len(cases), 'seed': rr['seed'], 'ast': rr['ast'], 'obs': rr['obs'], 'text': rr['text'], 'rr': rr})
        if rr['layout'] is not None:
            # Layout.tla's cells (relative to the first path) against the cells the VM touched
            paths = dyn_paths(rr['ds'], rr['paths'])
            if not any(d['kind'] == 'dyn' for d in rr['ds']):
                exp = [rr['cells']['<<%d, <<%s>>, %d>>' % (p[0], ', '.join(map(str, p[1])), p[2])] for p in paths]
                got = rr['layout']
                # one path is deliberately never written in the first pass: align by skipping it
                skip = random.Random(rr['seed']).randrange(len(paths))
                exp1 = [e for j, e in enumerate(exp) if j != skip]
                got1 = got[:len(exp1)]
                nlayout += 1
                if len(got1) == len(exp1) and exp1:
                    rel_e = [e - exp1[0] for e in exp1]
                    rel_g = [g_ - got1[0] for g_ in got1]
                    if rel_e != rel_g:
                        j = next(i for i in range(len(rel_e)) if rel_e[i] != rel_g[i])
                        pj = [p for k, p in enumerate(paths) if k != skip][j]
                        ctx.violation('layout-cell', rr['ds'][pj[0] - 1]['kind'] + ('/rank%d' % rr['ds'][pj[0] - 1]['rank'] if rr['ds'][pj[0] - 1]['rank'] else ''),
                                      {'program': rr['text'], 'decls': rr['ds'], 'path': pj, 'expected_relative_cell': rel_e[j], 'observed_relative_cell': rel_g[j]})
    verdicts = c01.validate(work, cases, maxsteps=20000)
    stats = {}
    for c, v in zip(cases, verdicts):
        for oi, vd in enumerate(v['verd']):
            stats[vd] = stats.get(vd, 0) + 1
            if vd in ('ok', 'oom', 'budget', 'impl-budget'):
                continue
            o = c['obs'][oi]
            pos = v['pos'][oi]
            ev = o['events'][pos - 1] if 0 < pos <= len(o['events']) else None
            kinds = '+'.join(d['kind'] + (str(d['rank']) if d['rank'] else '') for d in c['rr']['ds'])
            ctx.violation(vd, '%s:%s' % (c['rr']['variant'], kinds), {'program': c['text'], 'cfg': o['cfg'], 'verdict': vd, 'pos': pos, 'observed_event': ev,
                                                                      'observed_outcome': o['outcome'], 'spec_status': v['status'], 'decls': c['rr']['ds']})
    ctx.coverage.update({
        'states': r.distinct + sum(v['steps'] for v in verdicts), 'transitions': r.generated + sum(v['steps'] for v in verdicts),
        'traces_validated_against_impl': sum(len(c['obs']) for c in cases),
        'layout_scenarios_model_checked': len(scen) + len(r3.printed), 'scenarios_run': len(res), 'layout_cell_comparisons': nlayout,
        'verdicts': stats, 'variants': ['main', 'local', 'shared', 'param', 'recparam', 'static'],
        'samples': [{'decls': cases[0]['rr']['ds'], 'program': cases[0]['text'][:1500]}] if cases else [],
    })


def replay(ctx, case):
    print(case.get('program'))
    print(json.dumps({k: v for k, v in case.items() if k != 'program'}, indent=1)[:3000])
    ctx.coverage.update({'evaluations': 1, 'distinct_nontrivial': 2, 'samples': [case.get('decls')]})
