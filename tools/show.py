#!/venv/bin/python
import json,sys
d=json.load(open(sys.argv[1])); c=d['case']
print('==',d['signature'])
prog=c.get('program','')
ln=c.get('line',0)
lines=prog.split('\n')
lo=max(0,ln-int(sys.argv[2]) if len(sys.argv)>2 else 0); 
if len(sys.argv)>2 and sys.argv[2]=='all': lo=0; hi=len(lines)
else: lo=max(0,ln-6); hi=min(len(lines),ln+3)
for i in range(lo,hi): print('%4d%s %s'%(i+1,'>' if i+1==ln else ' ',lines[i]))
for k in ('cfg','seed','verdict','pos','observed_event','observed_outcome','spec_status','detail'):
    if k in c: print(k,':',json.dumps(c[k])[:600])
