------------------------------- MODULE Debugger -------------------------------
(***************************************************************************)
(* The debugger as a transition system over a recorded free run            *)
(* (property C12).                                                         *)
(*                                                                         *)
(* Constant data of a case (one program at one optimisation level):        *)
(*   T      the free run: T[i] = [pc, depth (live call frames * 1000 +     *)
(*          GOSUBs active in the innermost frame), st (innermost non-empty *)
(*          statement record containing pc, 0 = none), call (1: the        *)
(*          instruction at pc is a CALL), dev (device calls made so far),  *)
(*          dg (digest of the whole machine state)] for i = 1..N, plus     *)
(*          T[N+1] for the halted machine.  Index i = "i-1 instructions    *)
(*          executed".                                                     *)
(*   Lines  the candidate breakpoint lines with the address at which the   *)
(*          first executable statement at or after that line starts        *)
(*          (0: there is none)                                             *)
(* Debugger state: idx (position in the free run), bps (set of lines).     *)
(* The relation Succ is deterministic except where the property is silent: *)
(* `next` may or may not stop at an address that belongs to no statement.  *)
(***************************************************************************)
EXTENDS Integers, Sequences, FiniteSets

CONSTANTS T, Lines
N == Len(T) - 1
Fin == N + 1
Start == LET s == {j \in 1..N : T[j].st # 0} IN IF s = {} THEN Fin ELSE CHOOSE x \in s : \A y \in s : x <= y

LineSet == {Lines[k].ln : k \in 1..Len(Lines)}
Addr(l) == LET s == {k \in 1..Len(Lines) : Lines[k].ln = l} IN IF s = {} THEN 0 ELSE Lines[CHOOSE k \in s : TRUE].addr
BpAddrs(bps) == {Addr(l) : l \in bps} \ {0}

Least(S) == CHOOSE x \in S : \A y \in S : x <= y

\* first index after i at which a run stops because of a user breakpoint, or Fin
BpStop(i, bps) == LET s == {j \in (i + 1)..N : T[j].pc \in BpAddrs(bps)} IN IF s = {} THEN Fin ELSE Least(s)

\* where the CALL at i is back behind itself in the same activation
Back(i) == LET s == {j \in (i + 1)..N : T[j].pc = T[i].pc + 5 /\ T[j].depth = T[i].depth} IN IF s = {} THEN Fin ELSE Least(s)

\* one `nexti`
NextI(i, bps) ==
    IF i >= Fin THEN Fin
    ELSE IF T[i].call = 0 THEN i + 1
    ELSE IF BpStop(i, bps) < Back(i) THEN BpStop(i, bps) ELSE Back(i)
NextIHit(i, bps) == i < Fin /\ T[i].call = 1 /\ BpStop(i, bps) <= Back(i) /\ BpStop(i, bps) < Fin

\* `step`: until control is in another statement (or a user breakpoint, or the end)
StepTo(i, bps) ==
    LET s == {j \in (i + 1)..N : T[j].st # 0 /\ T[j].st # T[i].st}
        a == IF s = {} THEN Fin ELSE Least(s)
        u == BpStop(i, bps)
    IN IF u < a THEN u ELSE a

\* `next`: nexti steps until control is in another statement; the set of admissible stops
RECURSIVE NextFrom(_, _, _, _)
NextFrom(i, cur, bps, fuel) ==
    LET j == NextI(cur, bps) IN
    IF j >= Fin \/ fuel = 0 THEN {Fin}
    ELSE IF NextIHit(cur, bps) THEN {j}
    ELSE IF T[j].st # T[i].st THEN (IF T[j].st # 0 THEN {j} ELSE {j} \cup NextFrom(i, j, bps, fuel - 1))
    ELSE NextFrom(i, j, bps, fuel - 1)
NextStops(i, bps) == NextFrom(i, i, bps, N + 2)

ExecCmds == {"stepi", "nexti", "step", "next", "continue"}

\* admissible successors of an execution command
Succ(cmd, i, bps) ==
    IF i >= Fin THEN {Fin}                     \* a finished program stays finished
    ELSE CASE cmd = "stepi" -> {i + 1}
           [] cmd = "nexti" -> {NextI(i, bps)}
           [] cmd = "step" -> {StepTo(i, bps)}
           [] cmd = "next" -> NextStops(i, bps)
           [] cmd = "continue" -> {BpStop(i, bps)}
           [] OTHER -> {i}

\* breakpoint commands
BpsAfter(cmd, l, bps) ==
    CASE cmd = "break" -> IF Addr(l) = 0 THEN bps ELSE bps \cup {l}
      [] cmd = "delbr" -> {m \in bps : ~(m = l)}
      [] OTHER -> bps

(***************************************************************************)
(* What C12 states, as theorems about the relation on this free run.       *)
(***************************************************************************)
HitAt(j, bps) == j < Fin /\ T[j].pc \in BpAddrs(bps)
Progress(i, bps) ==
    \A cmd \in {"step", "next"} : \A j \in Succ(cmd, i, bps) :
        (i >= Fin /\ j = Fin) \/ (j > i /\ (j = Fin \/ T[j].st # T[i].st \/ HitAt(j, bps)))
\* `next` never stops strictly inside a call issued after it started, unless a breakpoint is hit there
NextStaysOut(i, bps) ==
    \A j \in Succ("next", i, bps) :
        j >= Fin \/ i >= Fin \/ HitAt(j, bps)
        \/ ~(\E k \in i..(j - 1) : T[k].call = 1 /\ Back(k) > j)
ContinueExact(i, bps) ==
    LET j == BpStop(i, bps) IN
        /\ j < Fin => HitAt(j, bps)
        /\ \A k \in (i + 1)..(j - 1) : k < Fin => ~HitAt(k, bps)
=============================================================================
