"""C14  Spelling, spacing, comments and separators do not change the program.

Rewrite.tla defines a SURFACE of a program (which statement boundaries are colons, where comments
and empty/REM lines stand, where LET / the CALL form / the NEXT variable / `><` are used, the
letter-case, spacing and label-naming styles), the legal rewriting steps, and Neutral: no statement
governed by a single-line IF, swallowed by a comment, no label inside a line.  TLC (MC_Rewrite.tla)
  (a) checks Neutral over EVERY surface reachable for all statement structures of length 3
      (kinds simple / single-line IF / other, with and without label), and confirms that the rule
      set with one condition dropped (joining after a single-line IF) is refuted;
  (b) for real programs - generated ones and three fixed templates (labelled DATA groups with
      RESTORE and line numbers; DEFtype statements; records, SHARED/STATIC/CONST, ON ERROR,
      SELECT CASE, single-line IF ELSE, CALL forms, strings that look like code) - enumerates the
      extremes of the orbit (every site of up to MaxKinds kinds at once, each style) and random
      walks of single steps from them.
Every surface is rendered to text, compiled, and compared with the plain text's module: sections
1-4 byte-identical, else same device interactions and outcome.  Trace_Rewrite.tla gives the
verdict and re-checks each rendered surface against Legal and Neutral.
"""
import itertools
import json
import os
import random

from lib import tlc, par, gen, qb, rewrite
from lib.common import Machinery

LEVEL = 'model_checking'

MC_CFG = '''SPECIFICATION Spec
CONSTANT D = %d
CONSTANT MaxKinds = %d
CONSTANT NK = %d
CONSTANT NB = %d
CONSTANT NN = %d
CONSTANT Strict = %s
%s
INVARIANT LegalInv
INVARIANT Neutral
%s
CHECK_DEADLOCK FALSE
'''

TEMPLATES = {
    'data-labels': ('''DIM a(1 TO 6) AS INTEGER
FOR i% = 1 TO 6
  READ a(i%)
NEXT i%||NEXT
PRINT a(1); a(4); a(6)
RESTORE third
READ s1$, s2$
PRINT s1$; "|"; s2$
RESTORE second
READ x%
PRINT x%
RESTORE first
READ z%
PRINT z%
GOSUB show
GOTO done
first: DATA 1, 2, 3
second: DATA 4, 5, 6
third: DATA mixed Case Item, "quoted, X"
show:
PRINT "in show"
RETURN
done:
PRINT "done"
''', ['first', 'second', 'third', 'show', 'done'], False),
    'deftypes': ('''DEFINT N
DEFSTR S
DEFDBL D-E
DEFLNG L
n = 2.6
nn = 7 / 2
s = "text"
d = 1 / 3
e = d * 3
l = 70000.4
other = 2.6
PRINT n; nn; s; d; e; l; other
''', [], False),
    'keyword-like-names': ('''DECLARE SUB fill (dst(), src%(), n%)
DIM target(1 TO 3)
DIM source%(1 TO 3)
total = 10
remaining = total - 3
dataset = remaining * 2
endval = dataset + 1
ifx = endval - total
nextval = ifx + 1
printer$ = "p"
tox = 5
stepsize = 2
elsewise = tox + stepsize
casey = elsewise * 2
loopct = casey - 1
dimx = loopct + 1
letter = dimx + 1
callme = letter + 1
gotoit = callme + 1
onward = gotoit + 1
source%(1) = 4
source%(2) = 5
source%(3) = 6
fill target(), source%(), 3||CALL fill(target(), source%(), 3)
PRINT remaining; dataset; endval; ifx; nextval; printer$; tox; stepsize; elsewise
PRINT casey; loopct; dimx; letter; callme; gotoit; onward; target(1); target(3)
SUB fill (dst(), src%(), n%)
  FOR idx% = 1 TO n%
    dst(idx%) = src%(idx%) * 2
  NEXT idx%||NEXT
END SUB
''', [], False),
    'mixed': ('''TYPE pt
  x AS INTEGER
  tag AS STRING
END TYPE
DECLARE SUB bump (p AS pt, k%)
DECLARE FUNCTION twice% (v%)
CONST limit = 3
DIM SHARED total AS LONG
DIM q AS pt
q.x = 1
q.tag = "If Then Else : ' not a comment"
ON ERROR GOTO handler
FOR i% = 1 TO limit
  bump q, i%||CALL bump(q, i%)
  IF q.x <> 4 THEN PRINT "ne"; q.x ELSE PRINT "eq"
NEXT i%||NEXT
SELECT CASE q.x
CASE 1 TO 3
  PRINT "low"
CASE IS <> 7
  PRINT "other"; twice%(q.x)
CASE ELSE
  PRINT "seven"
END SELECT
z% = 0
PRINT 10 \\ z%
PRINT q.tag; total
END
handler:
PRINT "err"; ERR
RESUME NEXT
SUB bump (p AS pt, k%)
  STATIC calls%
  calls% = calls% + 1
  p.x = p.x + k%
  total = total + calls%
END SUB
FUNCTION twice% (v%)
  twice% = v% * 2
END FUNCTION
''', ['handler'], True),
}


def _case(job):
    kind, payload = job
    if kind == 'tpl':
        tpl, labels, g = TEMPLATES[payload]
        units = rewrite.units_from_text(tpl)
        return {'name': payload, 'units': units, 'labels': labels, 'g': g}
    prog, text, ast = gen.generate(payload, size=10, depth=3, wide=True)
    try:
        units, labels = rewrite.units_from_gen(prog)
    except ValueError as e:
        return {'name': 'gen%d' % payload, 'skip': str(e)}
    return {'name': 'gen%d' % payload, 'units': units, 'labels': labels, 'g': False}


PLAIN = {'join': [], 'cmt': [], 'gap': [], 'let': [], 'call': [], 'nxt': [], 'ne': [], 'kase': 0, 'blank': 0, 'names': 0}


def sections(b):
    s = qb.split_sections(b)
    return {k: s.get(k) for k in (1, 2, 3, 4)}


def behaviour(text, O, g):
    from lib import rec
    r = rec.run_recorded(text, O, g, budget=60000)
    if r['st'] != 'ok':
        return None
    for e in r['events']:
        e.pop('ln', None)
    o = dict(r['outcome'])
    for k in ('ln', 'ticks', 'where', 'msg'):
        o.pop(k, None)
    return json.dumps([r['events'], o], sort_keys=True)


def _compile_job(job):
    cid, case, O, surfaces = job
    units, labels, g = case['units'], case['labels'], case['g']
    plain = rewrite.render(units, PLAIN, labels)
    base = qb.compile_text(plain, O, g)
    out = []
    if base['st'] != 'ok':
        return [{'id': sid, 'c': cid, 's': s, 'st': 'plain-' + base['st'], 'same': 0, 'beh': 'na', 'text': plain,
                 'detail': {k: v for k, v in base.items() if k not in ('code', 'bytes')}} for sid, s in surfaces]
    bsec = sections(base['bytes'])
    bbeh = None
    for sid, s in surfaces:
        text = rewrite.render(units, s, labels)
        r = qb.compile_text(text, O, g)
        o = {'id': sid, 'c': cid, 's': s, 'st': r['st'], 'same': 0, 'beh': 'na', 'O': O}
        if r['st'] == 'ok':
            if sections(r['bytes']) == bsec:
                o['same'] = 1
            else:
                if bbeh is None:
                    bbeh = behaviour(plain, O, g)
                nb = behaviour(text, O, g)
                o['beh'] = 'same' if (nb is not None and nb == bbeh) else 'differ'
        else:
            o['detail'] = {k: v for k, v in r.items() if k not in ('code', 'bytes')}
        if not (o['st'] == 'ok' and o['same'] == 1):
            o['text'] = text
            o['plain'] = plain
        out.append(o)
    return out


def run(ctx):
    work = tlc.scratch_dir('qbv-c14-')
    try:
        _run(ctx, work)
    finally:
        import shutil
        shutil.rmtree(work, ignore_errors=True)


def rules_cases(n, sites=True):
    cases = []
    for ks in itertools.product(['simple', 'ifline', 'other'], repeat=n):
        for labs in itertools.product([False, True], repeat=n):
            if not sites:
                # only the line structure (colons, comments, inserted lines): no optional-syntax sites
                cases.append({'stm': [{'k': k, 'lab': l, 'let': False, 'call': False, 'nxt': False, 'ne': False, 'lbl0': k == 'simple' and l, 'lbl1': False}
                                      for k, l in zip(ks, labs)]})
                continue
            # simple statements with a label are also given a CALL site whose bare form reads as a label
            cases.append({'stm': [{'k': k, 'lab': l, 'let': k == 'simple', 'call': k == 'simple', 'nxt': False, 'ne': k != 'other',
                                   'lbl0': k == 'simple' and l, 'lbl1': k == 'simple' and not l} for k, l in zip(ks, labs)]})
    return cases


def classify(o, case):
    """narrowest cause class of a failing surface: the kinds of rewriting it uses"""
    s = o['s']
    kinds = [k for k in ('join', 'cmt', 'gap', 'let', 'call', 'nxt', 'ne') if s[k]]
    for k in ('kase', 'blank', 'names'):
        if s[k]:
            kinds.append('%s%d' % (k, s[k]))
    return '+'.join(kinds) or 'plain'


def outcome_of(case, s, O):
    """(verdict-ish, obs) of one surface, computed like _compile_job + Trace_Rewrite.Verdict (used for shrinking only)"""
    o = _compile_job((0, case, O, [(0, s)]))[0]
    if o['st'] == 'crash':
        v = 'crashed'
    elif o['st'] != 'ok':
        v = 'rejected'
    elif o['same'] == 1 or o['beh'] == 'same':
        v = 'ok'
    else:
        v = 'behaviour'
    return v, o


def shrink(o, case, v):
    """drops kinds of rewriting, then single sites, while the same verdict persists"""
    s = json.loads(json.dumps(o['s']))
    O = o.get('O', 0)
    best = o
    for k in ('names', 'blank', 'kase'):
        if s[k]:
            t = dict(s)
            t[k] = 0
            v2, o2 = outcome_of(case, t, O)
            if v2 == v:
                s, best = t, o2
    for k in ('gap', 'cmt', 'ne', 'nxt', 'call', 'let', 'join'):
        if s[k]:
            t = dict(s)
            t[k] = []
            v2, o2 = outcome_of(case, t, O)
            if v2 == v:
                s, best = t, o2
    for k in ('gap', 'cmt', 'join'):
        for site in list(s[k]):
            if len(s[k]) <= 1:
                break
            t = dict(s)
            t[k] = [x for x in s[k] if x != site]
            v2, o2 = outcome_of(case, t, O)
            if v2 == v:
                s, best = t, o2
    best['O'] = O
    best['c'] = o['c']
    return best


def _shrink_job(job):
    o, case, v = job
    r = shrink(o, case, v)
    r['id'] = o['id']
    return r


def _run(ctx, work):
    rng = random.Random(ctx.seed)
    # (a) the rules, exhaustively on small structures
    # (structures of length 4 - 5 million surfaces for the line structure alone - did not finish within the TLC
    # time limit on the loaded machine; both tiers check length 3 with all sites)
    rc = rules_cases(3)
    rpath = os.path.join(work, 'rules.json')
    tlc.write_json(rpath, rc)
    r1 = tlc.run_tlc('MC_Rewrite', MC_CFG % (40, 0, 1, 1, 1, 'TRUE', 'VIEW V', ''), env={'CASES': rpath}, workers=12, timeout=3000, heap='10g')
    if r1.error or r1.invariant:
        raise Machinery('MC_Rewrite rules: %s %s' % (r1.invariant, (r1.error or '')[:800]))
    r0 = tlc.run_tlc('MC_Rewrite', MC_CFG % (40, 0, 1, 1, 1, 'FALSE', 'VIEW V', ''), env={'CASES': rpath}, workers=4, timeout=900, heap='4g')
    if r0.invariant != 'Neutral':
        raise Machinery('the weakened rule set was not refuted: %r %s' % (r0.invariant, (r0.error or '')[:300]))
    # (b) real programs
    jobs = [('tpl', n) for n in TEMPLATES] + [('gen', ctx.seed * 100000 + 40000 + i) for i in range(ctx.pick(24, 120))]
    built = [c for c in par.pmap(_case, jobs, chunk=1) if 'skip' not in c]
    for c in built:
        c['stm'] = rewrite.stm_of(c['units'])
    cpath = os.path.join(work, 'cases.json')
    tlc.write_json(cpath, [{'stm': c['stm']} for c in built])
    surfaces = {}

    def add(printed):
        for x in printed:
            s = x['s']
            key = json.dumps(s, sort_keys=True)
            surfaces.setdefault(x['c'], {})[key] = s
    r2 = tlc.run_tlc('MC_Rewrite', MC_CFG % (0, ctx.pick(1, 2), 4, 4, 4, 'TRUE', '', 'INVARIANT Report'), env={'CASES': cpath}, workers=8, timeout=3000, heap='8g')
    if r2.error or r2.invariant:
        raise Machinery('MC_Rewrite extremes: %s %s' % (r2.invariant, (r2.error or '')[:800]))
    add(r2.printed)
    n_ext = len(r2.printed)
    r3 = tlc.run_tlc('MC_Rewrite', MC_CFG % (12, 10, 4, 4, 4, 'TRUE', '', 'INVARIANT Report'), env={'CASES': cpath}, workers=1,
                     simulate=ctx.pick(len(built) * 3, len(built) * 10), depth=13, seed=ctx.seed, timeout=3000, heap='6g')
    if r3.error or r3.invariant:
        raise Machinery('MC_Rewrite walks: %s %s' % (r3.invariant, (r3.error or '')[:800]))
    # (TLC evaluates the invariants on every candidate successor: each walk yields many end surfaces; a sample is compiled)
    walk = list(r3.printed)
    rng.shuffle(walk)
    add(walk[:ctx.pick(len(built) * 14, len(built) * 300)])
    n_walk = len(r3.printed)
    jobs = []
    sid = 0
    meta = {}
    for c, d in sorted(surfaces.items()):
        ss = list(d.values())
        rng.shuffle(ss)
        ss = ss[:ctx.pick(40, 100)]
        case = built[c - 1]
        # every level for the templates; generated programs rotate through the levels (the thorough tier takes more
        # programs and surfaces instead: all levels for all of them took hours)
        levels = (0, 1, 2) if case['name'] in TEMPLATES else (c % 3,)
        for O in levels:
            chunk = []
            for s in ss:
                chunk.append((sid, s))
                meta[sid] = (c, O)
                sid += 1
            for i in range(0, len(chunk), 12):
                jobs.append((c, {k: case[k] for k in ('units', 'labels', 'g')}, O, chunk[i:i + 12]))
    obs = [o for part in par.pmap(_compile_job, jobs, chunk=1) for o in part]
    # verdicts
    opath = os.path.join(work, 'obs.json')
    verd = {}
    SH = 3000
    for si in range(0, len(obs), SH):
        tlc.write_json(opath, [{'id': o['id'], 'c': o['c'], 's': o['s'], 'st': o['st'] if not o['st'].startswith('plain-') else 'ok',
                                'same': o['same'], 'beh': o['beh']} for o in obs[si:si + SH]])
        tr = tlc.run_tlc('Trace_Rewrite', 'SPECIFICATION Spec\nCHECK_DEADLOCK FALSE\n', env={'CASES': cpath, 'OBS': opath}, workers=1, timeout=1700, heap='4g')
        if tr.error:
            raise Machinery('Trace_Rewrite: ' + tr.error[:1200])
        for x in tr.printed:
            verd[x['id']] = x['v']
    if len(verd) != len(obs):
        raise Machinery('Trace_Rewrite: %d verdicts for %d surfaces' % (len(verd), len(obs)))
    # the narrowest cause of each failing surface: shrink (in parallel) a bounded number of them
    failing = [o for o in obs if not o['st'].startswith('plain-') and verd[o['id']] not in ('ok', 'ok-behaviour', 'surface-not-neutral')]
    todo = failing[:ctx.pick(42, 300)]
    res = par.pmap(_shrink_job, [(o, {k: built[o['c'] - 1][k] for k in ('units', 'labels', 'g')}, verd[o['id']]) for o in todo], chunk=1)
    shrunk = {o['id']: r for o, r in zip(todo, res)}
    stats = {}
    for o in obs:
        case = built[o['c'] - 1]
        if o['st'].startswith('plain-'):
            ctx.violation('plain-text-' + o['st'][6:], case['name'], {'name': case['name'], 'program': o['text'], 'detail': o.get('detail')})
            continue
        v = verd[o['id']]
        stats[v] = stats.get(v, 0) + 1
        if v in ('ok', 'ok-behaviour'):
            continue
        if v == 'surface-not-neutral':
            raise Machinery('rendered surface is not legal/neutral: %r' % o['s'])
        if o['id'] in shrunk:
            o = shrunk[o['id']]
            trig = classify(o, case)
        else:
            trig = 'unshrunk'
        if v in ('rejected', 'crashed'):
            d = o.get('detail', {})
            trig += ':' + ('%s@%s' % (d.get('type'), d.get('where')) if v == 'crashed' else str(d.get('msg', ''))[:40])
        ctx.violation(v, trig, {'name': case['name'], 'level': o.get('O'), 'surface': o['s'], 'rewritten': o.get('text'), 'plain': o.get('plain'),
                                'detail': o.get('detail')})
    ctx.coverage.update({
        'states': r1.distinct + r2.distinct + r3.distinct, 'transitions': r1.generated + r2.generated + r3.generated,
        'rule_structures_exhaustive': len(rc), 'weakened_rule_refuted': True,
        'traces_validated_against_impl': len(obs), 'programs': len(built), 'surfaces_extremes': n_ext, 'surfaces_walks': n_walk,
        'verdicts': stats,
        'samples': [{'program': built[0]['name'], 'surface': obs[0]['s']}] if obs else [],
    })


def replay(ctx, case):
    print('--- plain\n' + (case.get('plain') or ''))
    print('--- rewritten\n' + (case.get('rewritten') or ''))
    print(json.dumps({k: v for k, v in case.items() if k not in ('plain', 'rewritten')}, indent=1)[:2000])
    ctx.coverage.update({'evaluations': 1, 'samples': [case.get('name')]})
