"""Splicing instruction windows (Peephole.tla) into compiled host programs and running them
as written and after QvmCode.optimize()."""
import copy
import io
import contextlib

from lib import qb, rec as recmod

HOSTS = {
    'I': ('vi% = 3: vl& = 100000: vs! = 1.5: vd# = 2.25\nri% = 12345\nPRINT ri%\n', ('%', 12345)),
    'L': ('vi% = 3: vl& = 100000: vs! = 1.5: vd# = 2.25\nrl& = 1234567\nPRINT rl&\n', ('&', 1234567)),
    'S': ('vi% = 3: vl& = 100000: vs! = 1.5: vd# = 2.25\nrs! = 123.5\nPRINT rs!\n', ('!', 123.5)),
    'D': ('vi% = 3: vl& = 100000: vs! = 1.5: vd# = 2.25\nrd# = 1234.5#\nPRINT rd#\n', ('#', 1234.5)),
    'T': ('vi% = 3: vl& = 100000: vs! = 1.5: vd# = 2.25\nrt$ = "MARK"\nPRINT rt$\n', ('$', '"MARK"')),
    'IF': ('vi% = 3: vl& = 100000: vs! = 1.5: vd# = 2.25\nIF 12321 THEN PRINT "T" ELSE PRINT "F"\n', ('%', 12321)),
}
VARNAMES = ['vi%', 'vl&', 'vs!', 'vd#']
_cache = {}


def host(kind):
    if kind not in _cache:
        from qbee.compiler import Compiler
        src, (tc, marker) = HOSTS[kind]
        c = Compiler(codegen_name='qvm', optimization_level=0, debug_info=False)
        with contextlib.redirect_stdout(io.StringIO()):
            code = c.compile(src)
        idx = [i for i, ins in enumerate(code._instrs)
               if getattr(ins, 'type_char', None) == tc and ins.op.name == 'PUSH' and list(ins.args) == [marker]]
        if len(idx) != 1:
            raise RuntimeError('marker of host %s found %d times' % (kind, len(idx)))
        _cache[kind] = (code, idx[0])
    return _cache[kind]


def tuples_of(window):
    out = []
    lits = []
    for e in window:
        b, t, a = e['b'], e['t'], e['a']
        if b == 'push':
            if t in '%&':
                out.append(('push' + t, int(a[0])))
            elif t in '!#':
                out.append(('push' + t, float(a[0]) * (2.0 ** a[1])))
            else:
                s = ''.join(chr(c) for c in a)
                lits.append(s)
                out.append(('push$', '"%s"' % s))
        elif b == 'readl':
            out.append(('readl' + t, VARNAMES[a[0] - 1]))
        elif b == 'conv':
            out.append(('conv' + t,))
        elif b == 'cmp':
            out.append(('cmp',))
            out.append((e['rel'],))
        else:
            out.append((b,))
    return out, lits


def run_bytes(b):
    try:
        mod = qb.load_module(b)
    except BaseException as e:
        return {'how': 'crash', 'trap': '%s@load' % type(e).__name__, 'val': ['-', 0, 0], 'big': False, 'branch': '-'}
    ob = recmod.EventObserver(mod)
    r, out, cpu = qb.run_module(mod, None, 5000, observer=ob)
    res = {'how': out['how'] if out['how'] in ('halt', 'trap') else 'crash', 'trap': out.get('trap') or '', 'val': ['-', 0, 0], 'big': False, 'branch': '-'}
    if out['how'] not in ('halt', 'trap'):
        res['trap'] = '%s:%s' % (out['how'], out.get('type', ''))
    for ev in ob.events:
        if ev['k'] == 'print':
            vals = [it for it in ev['items'] if it['k'] == 'val']
            if vals:
                res['val'] = vals[0]['v']
                res['big'] = bool(vals[0]['big'])
    return res


def splice(kind, window):
    from qbee.qvm_codegen import QvmInstr
    code, at = host(kind)
    tuples, lits = tuples_of(window)
    c2 = copy.copy(code)
    c2._instrs = list(code._instrs[:at]) + [QvmInstr(*t) for t in tuples] + list(code._instrs[at + 1:])
    c2._string_literals = list(code._string_literals)
    for s in lits:
        if s not in c2._string_literals:
            c2._string_literals.append(s)
    return c2


def both_runs(kind, window):
    """(plain, optimised) run records"""
    out = []
    for optimise in (False, True):
        try:
            c2 = splice(kind, window)
            if optimise:
                c2.optimize()
            with contextlib.redirect_stdout(io.StringIO()):
                b = bytes(c2)
        except Exception as e:
            out.append({'how': 'crash', 'trap': '%s@%s' % (type(e).__name__, qb.where_of(e)), 'val': ['-', 0, 0], 'big': False, 'branch': '-'})
            continue
        r = run_bytes(b)
        if kind == 'IF':
            v = r['val']
            r['branch'] = ''.join(chr(c) for c in v[1]) if v[0] == 'T' and isinstance(v[1], list) else '-'
            r['val'] = ['-', 0, 0]
        out.append(r)
    return out
