------------------------------- MODULE QBExpr -------------------------------
(***************************************************************************)
(* Expression evaluation of the QBASIC source semantics.                   *)
(*                                                                         *)
(* Eval(e, cx, k) evaluates AST node e left to right in context cx and     *)
(* returns <<tag, x, k'>>:                                                 *)
(*   "V" x = the value                                                     *)
(*   "E" x = an error / out-of-model value (<<"ERR",..>> or <<"OOM",..>>)   *)
(*   "N" x = [pi, args]: user FUNCTION number pi must be called with the    *)
(*       evaluated argument descriptors args before evaluation can go on    *)
(* k counts the user-function call sites met so far; results of calls       *)
(* 1..Len(cx.pend) are taken from the replay log cx.pend (QB.tla runs the   *)
(* callee statement by statement, appends its result and re-evaluates).     *)
(*                                                                         *)
(* A location is <<scope, name, indices, fields>>; cx.fr.env maps the       *)
(* by-reference parameters of the current activation to location prefixes.  *)
(***************************************************************************)
EXTENDS QBValues, PrintText, FiniteSets

\* context: [p |-> program, fr |-> frame, store |-> function on locations, arrs |-> function on <<scope,name>>, pend |-> seq]
V(x, k) == <<"V", x, k>>
E(x, k) == <<"E", x, k>>
Res(x, k) == IF Bad(x) THEN E(x, k) ELSE V(x, k)

Proc(p, pi) == p.procs[pi]
IsShared(p, n) == \E i \in 1..Len(p.shared) : p.shared[i] = n
IsStatic(p, pi, n) == pi > 0 /\ \E i \in 1..Len(Proc(p, pi).statics) : Proc(p, pi).statics[i] = n

\* the location prefix a variable name denotes in a frame
BasePrefix(cx, n) ==
    IF cx.fr.pi = 0 THEN <<0, n, <<>>, <<>>>>
    ELSE IF n \in DOMAIN cx.fr.env THEN cx.fr.env[n]
    ELSE IF IsShared(cx.p, n) THEN <<0, n, <<>>, <<>>>>
    ELSE IF IsStatic(cx.p, cx.fr.pi, n) THEN <<0 - cx.fr.pi, n, <<>>, <<>>>>
    ELSE <<cx.fr.act, n, <<>>, <<>>>>

ImplicitBounds(r) == [i \in 1..r |-> <<0, 10>>]
BoundsOf(cx, pre, rank) == IF <<pre[1], pre[2]>> \in DOMAIN cx.arrs THEN cx.arrs[<<pre[1], pre[2]>>] ELSE ImplicitBounds(rank)

ReadLoc(cx, loc, t) == IF loc \in DOMAIN cx.store THEN cx.store[loc] ELSE Default(t)

\* ---- byte string helpers ------------------------------------------------------------
Upper(c) == IF c >= 97 /\ c <= 122 THEN c - 32 ELSE c
Lower(c) == IF c >= 65 /\ c <= 90 THEN c + 32 ELSE c
RECURSIVE LTrimB(_)
LTrimB(s) == IF s # <<>> /\ Head(s) = BLANK THEN LTrimB(Tail(s)) ELSE s
RECURSIVE RTrimB(_)
RTrimB(s) == IF s # <<>> /\ s[Len(s)] = BLANK THEN RTrimB(SubSeq(s, 1, Len(s) - 1)) ELSE s
\* 1-based position of pat in s at or after start, 0 if none
RECURSIVE FindAt(_, _, _)
FindAt(s, pat, i) == IF i + Len(pat) - 1 > Len(s) THEN 0
                     ELSE IF SubSeq(s, i, i + Len(pat) - 1) = pat THEN i
                     ELSE FindAt(s, pat, i + 1)

\* built-in functions on evaluated arguments (none Bad)
Builtin(name, a) ==
    CASE name = "abs" ->
           (IF IsIntK(a[1][1]) THEN (IF a[1][2] = Lo(a[1][1]) THEN Err("OVF") ELSE <<a[1][1], Abs(a[1][2]), 0>>)
            ELSE IF IsFltK(a[1][1]) THEN <<a[1][1], Abs(a[1][2]), a[1][3]>> ELSE Err("TYPE"))
      [] name = "len" -> LngV(Len(a[1][2]))
      [] name = "asc" -> IF a[1][2] = <<>> THEN Err("ILLEGAL") ELSE IntV(a[1][2][1])
      [] name = "chr$" -> LET n == Conv(a[1], "I") IN
                          IF Bad(n) THEN n ELSE IF n[2] < 0 \/ n[2] > 255 THEN Err("ILLEGAL") ELSE StrV(<<n[2]>>)
      [] name = "left$" -> LET n == Conv(a[2], "I") IN
                          IF Bad(n) THEN n ELSE IF n[2] < 0 THEN Err("ILLEGAL")
                          ELSE StrV(SubSeq(a[1][2], 1, IF n[2] > Len(a[1][2]) THEN Len(a[1][2]) ELSE n[2]))
      [] name = "right$" -> LET n == Conv(a[2], "I") IN
                          IF Bad(n) THEN n ELSE IF n[2] < 0 THEN Err("ILLEGAL")
                          ELSE LET l == Len(a[1][2]) m == IF n[2] > l THEN l ELSE n[2]
                               IN StrV(SubSeq(a[1][2], l - m + 1, l))
      [] name = "mid$" -> LET st == Conv(a[2], "I")
                              ln == IF Len(a) >= 3 THEN Conv(a[3], "I") ELSE IntV(32767)
                          IN IF Bad(st) THEN st ELSE IF Bad(ln) THEN ln
                             ELSE IF st[2] < 1 \/ ln[2] < 0 THEN Err("ILLEGAL")
                             ELSE LET l == Len(a[1][2])
                                      hi == IF ln[2] > l - st[2] + 1 THEN l ELSE st[2] + ln[2] - 1
                                  IN StrV(IF st[2] > l THEN <<>> ELSE SubSeq(a[1][2], st[2], hi))
      [] name = "ucase$" -> StrV([i \in 1..Len(a[1][2]) |-> Upper(a[1][2][i])])
      [] name = "lcase$" -> StrV([i \in 1..Len(a[1][2]) |-> Lower(a[1][2][i])])
      [] name = "ltrim$" -> StrV(LTrimB(a[1][2]))
      [] name = "rtrim$" -> StrV(RTrimB(a[1][2]))
      [] name = "space$" -> LET n == Conv(a[1], "I") IN
                            IF Bad(n) THEN n ELSE IF n[2] < 0 THEN Err("ILLEGAL") ELSE StrV([i \in 1..n[2] |-> BLANK])
      [] name = "string$" -> LET n == Conv(a[1], "I") IN
                            IF Bad(n) THEN n ELSE IF n[2] < 0 THEN Err("ILLEGAL")
                            ELSE IF a[2][1] = "T" THEN
                                 (IF a[2][2] = <<>> THEN Err("ILLEGAL") ELSE StrV([i \in 1..n[2] |-> a[2][2][1]]))
                            ELSE LET c == Conv(a[2], "I") IN
                                 IF Bad(c) THEN c ELSE IF c[2] < 0 \/ c[2] > 255 THEN Err("ILLEGAL")
                                 ELSE StrV([i \in 1..n[2] |-> c[2]])
      [] name = "str$" -> IF IsIntK(a[1][1]) THEN StrV(IntText(a[1][2])) ELSE OOM
      [] name = "cint" -> Conv(a[1], "I")
      [] name = "clng" -> Conv(a[1], "L")
      [] name = "instr" -> \* (text, pattern) or (start, text, pattern)
           LET three == Len(a) = 3
               st == IF three THEN Conv(a[1], "L") ELSE LngV(1)
               s == IF three THEN a[2][2] ELSE a[1][2]
               pat == IF three THEN a[3][2] ELSE a[2][2]
           IN IF Bad(st) THEN st ELSE IF st[2] < 1 THEN Err("ILLEGAL")
              ELSE IF pat = <<>> THEN OOM              \* [amb] empty pattern
              ELSE LngV(FindAt(s, pat, st[2]))
      [] OTHER -> OOM

\* ---- the evaluator ------------------------------------------------------------------
RECURSIVE Eval(_, _, _), EvalList(_, _, _, _), LocOf(_, _, _)

\* evaluates a list of expressions left to right: <<tag, seq of values | bad value | need, k>>
EvalList(es, cx, k, acc) ==
    IF es = <<>> THEN <<"V", acc, k>>
    ELSE LET r == Eval(Head(es), cx, k) IN
         IF r[1] # "V" THEN r ELSE EvalList(Tail(es), cx, r[3], Append(acc, r[2]))

\* location of an lvalue node [n, ix, fl, t]: <<"V", loc, k>> or error / need
LocOf(lv, cx, k) ==
    LET pre == BasePrefix(cx, lv.n)
        ixs == EvalList(lv.ix, cx, k, <<>>)
    IN IF ixs[1] # "V" THEN ixs
       ELSE IF lv.ix = <<>> THEN <<"V", <<pre[1], pre[2], pre[3], pre[4] \o lv.fl>>, ixs[3]>>
       ELSE LET iv == [i \in 1..Len(ixs[2]) |-> Conv(ixs[2][i], "L")]
                bs == BoundsOf(cx, pre, Len(iv))
            IN IF \E i \in 1..Len(iv) : Bad(iv[i])
               THEN E(iv[CHOOSE i \in 1..Len(iv) : Bad(iv[i])], ixs[3])
               ELSE IF Len(bs) # Len(iv) THEN E(Err("RANK"), ixs[3])
               ELSE IF \E i \in 1..Len(iv) : iv[i][2] < bs[i][1] \/ iv[i][2] > bs[i][2]
                    THEN E(Err("SUBSCRIPT"), ixs[3])
               ELSE <<"V", <<pre[1], pre[2], [i \in 1..Len(iv) |-> iv[i][2]], pre[4] \o lv.fl>>, ixs[3]>>

\* argument descriptors of a call: <<"ref", location>> for lvalue arguments, <<"val", value>> otherwise,
\* <<"arr", prefix>> for a whole array
RECURSIVE ArgList(_, _, _, _)
ArgList(args, cx, k, acc) ==
    IF args = <<>> THEN <<"V", acc, k>>
    ELSE LET a == Head(args) IN
         IF a.k = "lv" THEN
              LET l == LocOf(a, cx, k) IN
              IF l[1] # "V" THEN l ELSE ArgList(Tail(args), cx, l[3], Append(acc, <<"ref", l[2]>>))
         ELSE IF a.k = "arr" THEN ArgList(Tail(args), cx, k, Append(acc, <<"arr", BasePrefix(cx, a.n)>>))
         ELSE LET r == Eval(a, cx, k) IN
              IF r[1] # "V" THEN r ELSE ArgList(Tail(args), cx, r[3], Append(acc, <<"val", r[2]>>))

ConstExpr(p, pi, n) ==
    LET own == {i \in 1..Len(p.consts) : p.consts[i].n = n /\ p.consts[i].pi = pi}
        glob == {i \in 1..Len(p.consts) : p.consts[i].n = n /\ p.consts[i].pi = 0}
    IN p.consts[CHOOSE i \in (IF own # {} THEN own ELSE glob) : TRUE].e

Eval(e, cx, k) ==
    CASE e.k = "num" -> V(IF IsIntK(e.t) THEN <<e.t, e.v, 0>> ELSE <<e.t, e.m, e.e>>, k)
      [] e.k = "str" -> V(StrV(e.b), k)
      [] e.k = "par" -> Eval(e.a, cx, k)
      [] e.k = "cst" -> LET r == Eval(ConstExpr(cx.p, cx.fr.pi, e.n), cx, k) IN
                        IF r[1] # "V" THEN r ELSE Res(Conv(r[2], e.t), r[3])
      [] e.k = "lv" -> LET l == LocOf(e, cx, k) IN
                       IF l[1] # "V" THEN l ELSE V(ReadLoc(cx, l[2], e.t), l[3])
      [] e.k = "un" -> LET r == Eval(e.a, cx, k) IN
                       IF r[1] # "V" THEN r
                       ELSE IF e.o = "pos" THEN r ELSE Res(UnOp(e.o, r[2]), r[3])
      [] e.k = "bin" -> LET l == Eval(e.l, cx, k) IN
                        IF l[1] # "V" THEN l
                        ELSE LET r == Eval(e.r, cx, l[3]) IN
                             IF r[1] # "V" THEN r ELSE Res(BinOp(e.o, l[2], r[2]), r[3])
      [] e.k = "fn" -> IF e.n = "err" THEN
                            \* ERR identifies the kind of the last error: the code of the error class the
                            \* cause demands (numbering taken from the tree, like the opcodes)
                            \* (0 while no error has occurred)
                            (IF cx.err = "" THEN V(IntV(0), k) ELSE V(IntV(cx.p.errcodes[cx.err]), k))
                       ELSE IF e.n \in {"lbound", "ubound"} THEN
                            LET pre == BasePrefix(cx, e.arr)
                                bs == BoundsOf(cx, pre, e.rank)
                                d == IF e.args = <<>> THEN V(LngV(1), k) ELSE Eval(e.args[1], cx, k)
                            IN IF d[1] # "V" THEN d
                               ELSE LET dv == Conv(d[2], "L") IN
                                    IF Bad(dv) THEN E(dv, d[3])
                                    ELSE IF dv[2] < 1 \/ dv[2] > Len(bs) THEN E(Err("SUBSCRIPT"), d[3])
                                    ELSE V(LngV(bs[dv[2]][IF e.n = "lbound" THEN 1 ELSE 2]), d[3])
                       ELSE LET a == EvalList(e.args, cx, k, <<>>) IN
                            IF a[1] # "V" THEN a ELSE Res(Builtin(e.n, a[2]), a[3])
      [] e.k = "call" ->
           LET a == ArgList(e.args, cx, k, <<>>) IN
           IF a[1] # "V" THEN a
           ELSE LET kk == a[3] + 1 IN
                IF kk <= Len(cx.pend) THEN V(cx.pend[kk], kk)
                ELSE <<"N", [pi |-> e.pi, args |-> a[2]], kk>>
=============================================================================
