-------------------------------- MODULE Shapes --------------------------------
(***************************************************************************)
(* Enumerator of statement SHAPES for the debug-marker paths of the        *)
(* compiler (property C08, also used by C11): every nesting of block        *)
(* statements with empty and non-empty bodies, single-line IFs with and    *)
(* without ELSE, SELECT with empty cases, up to N nodes.                   *)
(*                                                                         *)
(* A shape is a tree given in preorder as a sequence of nodes              *)
(*    [k |-> kind, p |-> index of the parent (0 = program), s |-> slot]    *)
(* Trees are built canonically: a node is appended below a node of the     *)
(* current rightmost path, in a slot not before the last one used there,   *)
(* so every tree is generated exactly once.                                *)
(***************************************************************************)
EXTENDS Integers, Sequences, FiniteSets, TLC, Json
CONSTANT N

Kinds == {"s", "if", "ifl", "for", "while", "do", "sel"}
\* slots of a block kind, in source order
Slots(k) == CASE k = "if" -> <<"then", "elif", "else">>
              [] k = "ifl" -> <<"then", "else">>
              [] k \in {"for", "while", "do"} -> <<"body">>
              [] k = "sel" -> <<"case1", "case2", "else">>
              [] k = "root" -> <<"body">>
              [] OTHER -> <<>>
SlotIdx(k, s) == CHOOSE i \in 1..Len(Slots(k)) : Slots(k)[i] = s

VARIABLES tree, closed
vars == <<tree, closed>>
Init == tree = <<>> /\ closed = FALSE

KindOf(i) == IF i = 0 THEN "root" ELSE tree[i].k
\* the rightmost path: the last node and its ancestors (and the program)
RECURSIVE PathFrom(_)
PathFrom(i) == IF i = 0 THEN {0} ELSE {i} \cup PathFrom(tree[i].p)
RightPath == IF tree = <<>> THEN {0} ELSE PathFrom(Len(tree))
\* last slot used below node i (0 if none)
LastSlot(i) == LET ch == {j \in 1..Len(tree) : tree[j].p = i}
               IN IF ch = {} THEN 0 ELSE SlotIdx(KindOf(i), tree[CHOOSE j \in ch : \A m \in ch : m <= j].s)

Add(k, p, s) ==
    /\ ~closed /\ Len(tree) < N
    /\ p \in RightPath
    /\ s \in {Slots(KindOf(p))[i] : i \in 1..Len(Slots(KindOf(p)))}
    /\ SlotIdx(KindOf(p), s) >= LastSlot(p)
    \* a single-line IF holds simple statements only
    /\ (KindOf(p) = "ifl" => k = "s")
    \* at most two statements per slot keeps the space small but covers "several"
    /\ Cardinality({j \in 1..Len(tree) : tree[j].p = p /\ tree[j].s = s}) < 2
    /\ tree' = Append(tree, [k |-> k, p |-> p, s |-> s])
    /\ UNCHANGED closed
Close == ~closed /\ tree # <<>> /\ closed' = TRUE /\ UNCHANGED tree

Next == Close \/ \E k \in Kinds, p \in 0..N, s \in {"then", "elif", "else", "body", "case1", "case2"} : Add(k, p, s)
Spec == Init /\ [][Next]_vars

\* well-formedness of every generated tree
WellFormed == \A i \in 1..Len(tree) :
                 /\ tree[i].p < i
                 /\ tree[i].s \in {Slots(KindOf(tree[i].p))[j] : j \in 1..Len(Slots(KindOf(tree[i].p)))}
                 /\ (KindOf(tree[i].p) = "ifl" => tree[i].k = "s")
\* a single-line IF needs a THEN part to exist in the source
Usable == \A i \in 1..Len(tree) : tree[i].k = "ifl" => \E j \in 1..Len(tree) : tree[j].p = i /\ tree[j].s = "then"
Report == (closed /\ Usable) => PrintT(ToJson([tree |-> tree]))
=============================================================================
