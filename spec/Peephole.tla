------------------------------ MODULE Peephole ------------------------------
(***************************************************************************)
(* Straight-line instruction windows of the QVM and their meaning          *)
(* (property C02, the optimiser's peephole rules).                         *)
(*                                                                         *)
(* A WINDOW is a sequence of elements; an element is one instruction       *)
(* [b, t, a] (base mnemonic, type characters, operand) or the pair         *)
(* cmp + relational instruction.  A window is ADMISSIBLE when, started on  *)
(* an empty operand stack, every instruction finds operands of the types   *)
(* it requires (QVMTypes!Sig - the machine-level typing used for C03) and  *)
(* it leaves exactly one value: these are the windows an expression of the *)
(* compiler can produce, and the ones the optimiser has to preserve.       *)
(* Value(w) is what the window computes, by the value semantics of         *)
(* QBValues.tla (the same operators that give source programs their       *)
(* meaning): a value, an error kind, or out-of-model.                      *)
(* MC_Peephole enumerates all admissible windows up to a length; the       *)
(* harness splices each into a compiled host program, runs it unoptimised  *)
(* and through QvmCode.optimize(), and Trace_Peephole compares BOTH runs   *)
(* with Value(w).                                                          *)
(***************************************************************************)
EXTENDS QBValues, Sequences, FiniteSets
T == INSTANCE QVMTypes

KindOf(c) == CASE c = "%" -> "I" [] c = "&" -> "L" [] c = "!" -> "S" [] c = "#" -> "D" [] OTHER -> "T"

\* operands are integer sequences throughout (TLC must be able to compare any two instructions):
\* <<n>> for an integer, <<mantissa, binary exponent>> for a float, the bytes of a string, <<index>> of a variable
PushI == {0, 1, 2, -1, 7, 300, 32767, -32768}
PushL == {0, 1, -1, 70000, 2147483647, -2147483647}
PushF == {<<0, 0>>, <<1, 0>>, <<1, -1>>, <<5, -1>>, <<-3, -2>>, <<1, 100>>, <<7, 0>>}      \* 0, 1, .5, 2.5, -.75, 2^100, 7
PushS == {<<>>, <<97>>, <<97, 98>>}
\* the host program's variables: vi% = 3, vl& = 100000, vs! = 1.5, vd# = 2.25
Vars == <<[t |-> "%", v |-> <<"I", 3, 0>>], [t |-> "&", v |-> <<"L", 100000, 0>>],
          [t |-> "!", v |-> <<"S", 3, -1>>], [t |-> "#", v |-> <<"D", 9, -2>>]>>
NumT == {"%", "&", "!", "#"}

Ins(b, t, a) == [b |-> b, t |-> t, a |-> a, rel |-> ""]
Alphabet ==
    {Ins("push", "%", <<n>>) : n \in PushI} \cup {Ins("push", "&", <<n>>) : n \in PushL}
    \cup {Ins("push", "!", f) : f \in PushF} \cup {Ins("push", "#", f) : f \in PushF}
    \cup {Ins("push", "$", s) : s \in PushS}
    \cup {Ins("readl", Vars[i].t, <<i>>) : i \in 1..Len(Vars)}
    \cup {Ins("conv", x \o y, <<>>) : x \in NumT, y \in NumT}
    \cup {Ins(b, "", <<>>) : b \in {"add", "sub", "mul", "div", "exp", "idiv", "mod", "and", "or", "xor", "eqv", "imp", "neg", "not"}}
    \cup {[b |-> "cmp", t |-> "", a |-> <<>>, rel |-> r] : r \in {"eq", "ne", "lt", "gt", "le", "ge"}}

\* ---- admissibility: stack typing with QVMTypes!Sig ------------------------------------
\* st = operand types, top first
Apply1(ins, st) ==
    LET g == T!Sig([b |-> ins.b, t |-> ins.t, a |-> <<>>], st, 0)
    IN IF ~g.ok THEN <<FALSE, st>>
       ELSE LET rest == SubSeq(st, g.pops + 1, Len(st))
                \* pushed is given bottom-first
                pushed == [i \in 1..Len(g.push) |-> g.push[Len(g.push) + 1 - i]]
            IN <<TRUE, pushed \o rest>>
\* the compiler converts integer operands of / and ^ to floating point first: windows with an
\* integral div/exp are not expression code
Emittable(ins, st) == ~(ins.b \in {"div", "exp"} /\ Len(st) >= 1 /\ st[1] \in {"I", "L"})
                      /\ ~(ins.b = "conv" /\ SubSeq(ins.t, 1, 1) = SubSeq(ins.t, 2, 2))
Step(ins, st) ==
    IF ~Emittable(ins, st) THEN <<FALSE, st>>
    ELSE IF ins.b = "cmp" THEN
         LET a == Apply1(ins, st) IN
         IF ~a[1] THEN a ELSE Apply1([b |-> ins.rel, t |-> "", a |-> <<>>, rel |-> ""], a[2])
    ELSE Apply1(ins, st)

\* ---- meaning -----------------------------------------------------------------------------
Lit(ins) == LET k == KindOf(ins.t) IN
            IF k \in {"I", "L"} THEN <<k, ins.a[1], 0>>
            ELSE IF k = "T" THEN StrV(ins.a)
            ELSE MkF(k, ins.a[1], ins.a[2])
SrcOp(b) == IF b = "exp" THEN "pow" ELSE b

\* vs = values, top first; returns the new value stack or <<an error value>> marked by length 0 stack + err
RECURSIVE Run(_, _, _)
Run(w, k, vs) ==
    IF k > Len(w) THEN [err |-> FALSE, v |-> vs[1]]
    ELSE LET ins == w[k] IN
         IF ins.b = "push" THEN
              LET v == Lit(ins) IN IF Bad(v) THEN [err |-> TRUE, v |-> v] ELSE Run(w, k + 1, <<v>> \o vs)
         ELSE IF ins.b = "readl" THEN Run(w, k + 1, <<Vars[ins.a[1]].v>> \o vs)
         ELSE IF ins.b = "conv" THEN
              LET v == Conv(vs[1], KindOf(SubSeq(ins.t, 2, 2))) IN
              IF Bad(v) THEN [err |-> TRUE, v |-> v] ELSE Run(w, k + 1, <<v>> \o Tail(vs))
         ELSE IF ins.b \in {"neg", "not"} THEN
              LET v == UnOp(ins.b, vs[1]) IN
              IF Bad(v) THEN [err |-> TRUE, v |-> v] ELSE Run(w, k + 1, <<v>> \o Tail(vs))
         ELSE \* binary: second operand is on top
              LET b == vs[1]
                  a == vs[2]
                  v == BinOp(IF ins.b = "cmp" THEN ins.rel ELSE SrcOp(ins.b), a, b)
              IN IF Bad(v) THEN [err |-> TRUE, v |-> v] ELSE Run(w, k + 1, <<v>> \o Tail(Tail(vs)))
Value(w) == Run(w, 1, <<>>).v
=============================================================================
