----------------------------- MODULE MC_Debugger -----------------------------
(***************************************************************************)
(* Command histories of the debugger over recorded free runs: TLC          *)
(* enumerates every history of at most K commands for every case, checks   *)
(* the C12 theorems of Debugger.tla in every reachable debugger state and  *)
(* prints the histories for replay into qvm/dbg.py.                        *)
(***************************************************************************)
EXTENDS Integers, Sequences, FiniteSets, TLC, Json, IOUtils

CONSTANT K
Cases == JsonDeserialize(IOEnv.CASES_FILE)
D(c) == INSTANCE Debugger WITH T <- Cases[c].T, Lines <- Cases[c].L

VARIABLES c, idx, bps, hist
vars == <<c, idx, bps, hist>>

Init == /\ c \in 1..Len(Cases)
        /\ idx = D(c)!Start
        /\ bps = {}
        /\ hist = <<>>

Exec(cmd) == /\ \E j \in D(c)!Succ(cmd, idx, bps) : idx' = j
             /\ hist' = Append(hist, <<cmd, 0>>)
             /\ UNCHANGED <<c, bps>>
Brk(cmd, l) == /\ bps' = D(c)!BpsAfter(cmd, l, bps)
               /\ hist' = Append(hist, <<cmd, l>>)
               /\ UNCHANGED <<c, idx>>
Next == /\ Len(hist) < K
        /\ \/ \E cmd \in D(c)!ExecCmds : Exec(cmd)
           \/ \E l \in D(c)!LineSet \ bps : Brk("break", l)
           \/ \E l \in bps : Brk("delbr", l)
           \/ (bps = {} /\ \E l \in D(c)!LineSet : l = Cases[c].L[1].ln /\ Brk("delbr", l))
Spec == Init /\ [][Next]_vars

Progress == D(c)!Progress(idx, bps)
NextStaysOut == D(c)!NextStaysOut(idx, bps)
ContinueExact == D(c)!ContinueExact(idx, bps)
InRange == idx \in 1..D(c)!Fin
Report == PrintT(ToJson([c |-> c, h |-> hist]))
=============================================================================
