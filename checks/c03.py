"""C03  Accepted programs are type- and stack-safe on the VM.

Concrete-run monitor as a trace specification: every instruction executed by the real VM
for generated programs (6 configurations) is recorded (lib/tick.py) and Trace_QVMSafe.tla
checks each tick against the type-level instruction semantics of QVMTypes.tla: operand
types, stack effect, result types, cell type stability, typed reads, no machine-level
fault trap, and the stack depth at statement boundaries (routine entry depth + active
GOSUBs).
"""
import json
import os
import random

from lib import tlc, par, gen
from lib.common import Machinery

LEVEL = 'model_checking'
CFGS = [(0, False), (0, True), (1, False), (1, True), (2, False), (2, True)]
TRACE_CFG = '''SPECIFICATION Spec
INVARIANT Report
CHECK_DEADLOCK FALSE
'''
FIXED = [
    # INPUT / READ / DATA / GOSUB / recursion / string functions, hand-written
    ('input-read', 'DIM a%(3)\nDATA 5, 6.5, "x,y", 7\nREAD a%(1), s!, t$\nINPUT "n"; n%, m$\nGOSUB w\nPRINT a%(1); s!; t$; n%; m$\nPRINT f&(4)\nEND\nw: PRINT "in"; : RETURN\nFUNCTION f& (k%)\nIF k% <= 1 THEN f& = 1 ELSE f& = k% * f&(k% - 1)\nEND FUNCTION\n',
     {'lines': ['x', '3,hello']}),
    ('devices', 'CLS\nCOLOR 7, 1\nLOCATE 2, 3\nBEEP\nSOUND 440, 2\nPLAY "abc"\nRANDOMIZE 1\nx! = RND\nt! = TIMER\nk$ = INKEY$\nDEF SEG = 0\nPOKE 1047, 0\nDEF SEG\nWIDTH 80, 25\nVIEW PRINT 1 TO 5\nSCREEN 0\nPRINT x!; t!; k$; LEN(k$)\n',
     {'rnd': [0.5], 'timer': [10.0], 'keys': ['q']}),
    ('strings', 'a$ = "Hello World"\nPRINT LEFT$(a$, 3); RIGHT$(a$, 4); MID$(a$, 2, 3); MID$(a$, 7); UCASE$(a$); LCASE$(a$)\nPRINT INSTR(a$, "o"); INSTR(6, a$, "o"); LEN(a$); ASC(a$); CHR$(65); STR$(12); VAL("3.5"); SPACE$(2); STRING$(3, 42); STRING$(2, "z")\nPRINT LTRIM$("  x"); RTRIM$("x  "); ABS(-2.5); CINT(2.5); CLNG(3.5); INT(-2.5); 2 ^ 3\n', {}),
    ('return-label', 'FOR i% = 1 TO 3\n  GOSUB w\nback:\nNEXT\nscan 2\nPRINT "done"\nEND\nw: PRINT "w"; i%\nIF i% = 2 THEN RETURN back\nRETURN\nSUB scan (n%)\n  FOR k% = 1 TO n%\n    GOSUB inner\nnxt:\n  NEXT\n  EXIT SUB\ninner: PRINT "in"; k%\n  IF k% = 1 THEN RETURN nxt\n  RETURN\nEND SUB\n', {}),
    ('dynarr', 'n% = 3\nDIM d&(n%, 1 TO n%)\nd&(2, 3) = 70000\nPRINT d&(2, 3); LBOUND(d&, 2); UBOUND(d&, 1)\nfill d&()\nPRINT d&(0, 1)\nSUB fill (q&())\nq&(0, 1) = 9\nEND SUB\n', {}),
]


def _job(job):
    from lib import qb, tick
    kind, seed, text, script, O, g = job
    if kind == 'gen':
        prog, text, ast = gen.generate(seed, size=10, depth=3, wide=True)
    c = qb.compile_text(text, O, g)
    if c['st'] != 'ok':
        return {'fail': c['st'], 'detail': {k: v for k, v in c.items() if k not in ('code', 'bytes')}, 'text': text}
    mod = qb.load_module(c['bytes'])
    tr = tick.TickRecorder(mod, maxticks=2500)
    rec, out, cpu = qb.run_module(mod, script, budget=2500, observer=tr)
    return {'text': text, 'ticks': tr.ticks, 'out': {k: v for k, v in out.items() if k != 'stdout'}, 'cfg': [O, g], 'seed': seed}


def run(ctx):
    work = tlc.scratch_dir('qbv-c03-')
    try:
        _run(ctx, work)
    finally:
        import shutil
        shutil.rmtree(work, ignore_errors=True)


def validate(work, cases, name='ticks.json'):
    out = []
    SH = 60
    shards = [cases[i:i + SH] for i in range(0, len(cases), SH)]
    import concurrent.futures as cf

    def one(args):
        si, shard = args
        path = os.path.join(work, '%d-%s' % (si, name))
        tlc.write_json(path, [{'tid': c['tid'], 'ticks': c['ticks']} for c in shard])
        r = tlc.run_tlc('Trace_QVMSafe', TRACE_CFG, env={'CASES': path}, workers=1, timeout=1700, heap='3g')
        by = {x['tid']: x for x in r.printed}
        if r.error or len(by) != len(shard):
            if len(shard) == 1:
                raise Machinery('Trace_QVMSafe failed: %s' % (r.error or 'no verdict')[:1200])
            h = len(shard) // 2
            return one((si * 2 + 1000, shard[:h])) + one((si * 2 + 1001, shard[h:]))
        os.unlink(path)
        return [by[c['tid']] for c in shard]
    with cf.ThreadPoolExecutor(max_workers=7) as pool:
        for part in pool.map(one, list(enumerate(shards))):
            out += part
    return out


def _run(ctx, work):
    n = ctx.pick(50, 1500)
    jobs = []
    for i in range(n):
        for (O, g) in (CFGS if not ctx.quick() else [CFGS[i % 6], CFGS[(i + 3) % 6]]):
            jobs.append(('gen', ctx.seed * 100000 + 70000 + i, None, None, O, g))
    for name, text, script in FIXED:
        for (O, g) in CFGS:
            jobs.append(('fixed', name, text, script, O, g))
    res = par.pmap(_job, jobs, chunk=2)
    cases = []
    for r in res:
        if 'fail' in r:
            d = r['detail']
            trig = '%s@%s' % (d.get('type'), d.get('where')) if r['fail'] == 'crash' else '%s:%s' % (r['fail'], str(d.get('msg', ''))[:40])
            ctx.violation('rejected-or-crashed', trig, {'program': r['text'], 'detail': d})
            continue
        if r['out'].get('how') == 'host-exception':
            ctx.violation('host-exception', '%s@%s' % (r['out'].get('type'), r['out'].get('where')),
                          {'program': r['text'], 'cfg': r['cfg'], 'out': r['out']})
        cases.append({'tid': len(cases), 'ticks': r['ticks'], 'text': r['text'], 'cfg': r['cfg'], 'seed': r['seed'], 'out': r['out']})
    verdicts = validate(work, cases)
    nticks = 0
    ops = set()
    for c, v in zip(cases, verdicts):
        nticks += len(c['ticks'])
        for t in c['ticks']:
            ops.add(t['ins']['b'] + t['ins']['t'])
        if v['verdict'] != 'ok':
            t = c['ticks'][v['l'] - 1]
            ctx.violation(v['verdict'], t['ins']['b'] + t['ins']['t'] + (':' + t['ins']['dev'] + '.' + t['ins']['dop'] if t['ins']['b'] == 'io' else ''),
                          {'program': c['text'], 'cfg': c['cfg'], 'seed': c['seed'], 'tick': t, 'index': v['l'],
                           'previous_ticks': c['ticks'][max(0, v['l'] - 4):v['l'] - 1]})
    # binding demonstration
    good = [c for c, v in zip(cases, verdicts) if v['verdict'] == 'ok' and len(c['ticks']) > 20][:12]
    demo = []
    import copy
    for c in good:
        d = {'tid': len(demo), 'ticks': copy.deepcopy(c['ticks'])}
        k = len(d['ticks']) // 2
        d['ticks'][k]['d1'] += 1                     # a stray cell
        demo.append(d)
        d2 = {'tid': len(demo), 'ticks': copy.deepcopy(c['ticks'])}
        ks = [i for i, t in enumerate(d2['ticks']) if t['after'] and t['ins']['b'] in ('push', 'readl', 'readg', 'add', 'cmp')]
        if ks:
            d2['ticks'][ks[len(ks) // 2]]['after'][0] = 'T' if d2['ticks'][ks[len(ks) // 2]]['after'][0] != 'T' else 'I'
            demo.append(d2)
    dv = validate(work, demo, 'demo.json') if demo else []
    bd = {'corrupted': len(demo), 'rejected': sum(1 for x in dv if x['verdict'] != 'ok')}
    ctx.coverage.update({
        'states': nticks + len(cases), 'transitions': nticks,
        'traces_validated_against_impl': len(cases), 'ticks_checked': nticks,
        'distinct_opcodes_executed': len(ops), 'binding_demo': bd,
        'samples': [{'program': cases[0]['text'][:600], 'first_ticks': cases[0]['ticks'][:3]}] if cases else [],
    })
    ctx.assumptions += ['runs are cut after 2500 instructions', 'cell types: a cell keeps the type of its first store (declared types are not available in a module without debug info)',
                        'only executed paths are monitored; the all-paths abstract exploration of DESIGN.md 3.5 is not built']
    if bd['rejected'] != bd['corrupted']:
        raise Machinery('binding demonstration failed: %r' % bd)


def replay(ctx, case):
    print(case.get('program'))
    print(json.dumps({k: v for k, v in case.items() if k != 'program'}, indent=1)[:3000])
    ctx.coverage.update({'evaluations': 1, 'distinct_nontrivial': 2, 'samples': [case.get('cfg')]})
