"""C20  Determinism.  Spec: Session.tla (the result of a request is a function of the request).

MC_Session enumerates every history of <= K requests over the request set (compile
requests = program x options incl. failing programs; run requests = program x script);
each history runs in ONE fresh child process (lib/c20_child.py) under a rotating
environment (PYTHONHASHSEED, working directory, shifted clock); every distinct request
also runs alone under three hash seeds.  All recorded <request, result digest> events,
in order, form one trace that Trace_Session.tla validates against Session.tla.
"""
import json
import os
import random
import subprocess
import sys

from lib import tlc, par
from lib.common import Machinery, VERIF, REPO

LEVEL = 'model_checking'

PROGRAMS = [
    # 0: DEFtype, labels, gotos, gosubs (label numbering, canonical label names)
    "DEFINT A-Z\nDIM c AS LONG\nstart: x = 5\nFOR i = 1 TO 3\n  IF i = 2 THEN GOTO skip\n  PRINT i; x\nskip:\nNEXT i\nGOSUB sub1\nGOSUB 100\nEND\nsub1: PRINT \"s1\": RETURN\n100 PRINT \"s100\": RETURN\n",
    # 1: syntax error
    "PRINT 1\nFOR i = 1 TO\nPRINT 2\n",
    # 2: compile error (type mismatch)
    "x$ = \"a\"\ny% = x$ + 1\n",
    # 3: procedures, arrays, records, select, loops
    "TYPE pt\n  x AS INTEGER\n  y AS SINGLE\nEND TYPE\nDECLARE SUB show (p AS pt, n AS INTEGER)\nDIM a(1 TO 3) AS pt\nDIM SHARED total AS LONG\nFOR i% = 1 TO 3\n  a(i%).x = i% * 2\n  a(i%).y = i% / 2\n  show a(i%), i%\nNEXT\nSELECT CASE total\nCASE 1 TO 5: PRINT \"small\"\nCASE IS > 5: PRINT \"big\"\nCASE ELSE: PRINT \"none\"\nEND SELECT\nPRINT sq!(1.5)\nSUB show (p AS pt, n AS INTEGER)\n  total = total + p.x\n  PRINT n; p.x; p.y\nEND SUB\nFUNCTION sq! (v!)\n  sq! = v! * v!\nEND FUNCTION\n",
    # 4: DEFDBL then literals; constant folding
    "DEFDBL A-Z\nCONST k = 3 * 7 + 1\nq = 1 / 3\nPRINT q; k; 2 ^ 10; 7 \\ 2; 7 MOD 3\nw! = 1 / 3\nPRINT w!\n",
    # 5: many string literals + DATA
    "DATA 1, two, \"three, 3\", , 5\nREAD a%, b$, c$, d$, e%\nPRINT a%; b$; c$; d$; e%\nPRINT \"x\"; \"y\"; \"x\"; \"zz\"; \"y\"\nRESTORE\nREAD n%\nPRINT n%\n",
    # 6: inputs: RND, TIMER, INPUT, INKEY$
    "RANDOMIZE 5\nPRINT RND; RND(1)\nPRINT TIMER\nINPUT \"v\"; v%\nk$ = INKEY$\nPRINT v% * 2; k$\n",
    # 7: ON ERROR, RESUME NEXT, GOSUB
    "ON ERROR GOTO h\nz% = 0\nPRINT 10 \\ z%\nPRINT \"after\"\nEND\nh: PRINT \"err\"; ERR\nRESUME NEXT\n",
    # 8 and 9: the same TYPE name with different layouts, variables placed after a record
    "TYPE rec\n  a AS INTEGER\nEND TYPE\nDIM r AS rec\nDIM z AS INTEGER\nr.a = 1: z = 2\nPRINT r.a; z\n",
    "TYPE rec\n  a AS INTEGER\n  b AS LONG\n  c AS STRING\nEND TYPE\nDIM r AS rec\nDIM z AS INTEGER\nDIM q(2) AS rec\nr.a = 1: r.b = 2: r.c = \"x\": z = 3: q(1).b = 4\nPRINT r.a; r.b; r.c; z; q(1).b\n",
    # 10: several STATIC variables in several procedures (order of the global area)
    "DECLARE SUB tick ()\nDECLARE FUNCTION nxt% ()\ntick: tick: PRINT nxt%; nxt%\nSUB tick\n  STATIC n1%, n2&, n3$, n4!\n  n1% = n1% + 1: n2& = n2& + 2: n3$ = n3$ + \"x\": n4! = n4! + .5\n  PRINT n1%; n2&; n3$; n4!\nEND SUB\nFUNCTION nxt%\n  STATIC k1%, k2%\n  k1% = k1% + 1: k2% = k2% + 10\n  nxt% = k1% + k2%\nEND FUNCTION\n",
]
SCRIPTS = [
    {'lines': ['x', '21'], 'keys': ['q'], 'rnd': [0.25, 0.5, 0.75], 'timer': [12345.5]},
    {'lines': ['7'], 'keys': [], 'rnd': [0.125, 0.875], 'timer': [1.0]},
]


def requests(ctx):
    reqs = []
    opts = [(0, False), (2, True)] if ctx.quick() else [(0, False), (0, True), (1, False), (1, True), (2, False), (2, True), (3, True)]
    for p in range(len(PROGRAMS)):
        for (O, g) in opts:
            if ctx.quick() and p in (1, 2) and (O, g) != (0, False):
                continue
            reqs.append({'k': 'compile', 'p': p, 'O': O, 'g': g})
    for p, s, O, g in [(6, 0, 0, False), (6, 1, 2, True), (7, 0, 1, True), (3, 0, 2, False), (0, 0, 0, True)]:
        reqs.append({'k': 'run', 'p': p, 's': s, 'O': O, 'g': g})
    return reqs


def _child(job):
    envd, history, work = job
    e = dict(os.environ)
    e['PYTHONHASHSEED'] = str(envd['seed'])
    e['PYTHONPATH'] = REPO
    payload = {'history': history, 'programs': PROGRAMS, 'scripts': SCRIPTS, 'verif': VERIF, 'repo': REPO,
               'cwd': envd.get('cwd'), 'fake_time': envd.get('fake_time')}
    p = subprocess.run([sys.executable, os.path.join(VERIF, 'lib', 'c20_child.py')], input=json.dumps(payload).encode(),
                       stdout=subprocess.PIPE, stderr=subprocess.PIPE, env=e, timeout=600)
    for line in p.stdout.decode('utf-8', 'replace').splitlines():
        if line.startswith('RESULT '):
            return json.loads(line[7:])
    return {'error': p.stderr.decode('utf-8', 'replace')[-800:]}


MC_CFG = '''SPECIFICATION Spec
CONSTANT NREQ = %d
CONSTANT K = %d
INVARIANT FunctionOfRequest
INVARIANT TouchedIsHist
INVARIANT Report
CHECK_DEADLOCK FALSE
'''
TRACE_CFG = '''SPECIFICATION Spec
INVARIANT Report
CHECK_DEADLOCK FALSE
'''


def run(ctx):
    work = tlc.scratch_dir('qbv-c20-')
    try:
        _run(ctx, work)
    finally:
        import shutil
        shutil.rmtree(work, ignore_errors=True)


def _run(ctx, work):
    rng = random.Random(ctx.seed)
    reqs = requests(ctx)
    n = len(reqs)
    K = 2
    r = tlc.run_tlc('MC_Session', MC_CFG % (n, K), workers=8, timeout=1700)
    if r.error:
        if r.invariant:
            ctx.violation('model-invariant', r.invariant, {'tlc': r.error[:2000]})
            return
        raise Machinery('MC_Session: ' + r.error[:1500])
    hists = [b['hist'] for b in r.printed]
    # longer histories by simulation
    r3 = tlc.run_tlc('MC_Session', MC_CFG % (n, ctx.pick(4, 6)), workers=1, simulate=ctx.pick(25, 1500), depth=12,
                     seed=ctx.seed, timeout=1700)
    if r3.error:
        raise Machinery('MC_Session simulate: ' + r3.error[:1500])
    long_h = [b['hist'] for b in r3.printed if len(b['hist']) > K]
    seen = set()
    allh = []
    for h in hists + long_h:
        if tuple(h) not in seen:
            seen.add(tuple(h))
            allh.append(h)
    if ctx.quick():
        pairs = [h for h in allh if len(h) == 2]
        rng.shuffle(pairs)
        # all singles, every ordered pair whose second request is a compile of another program (the
        # hazard: state left by an earlier request), sampled down to a budget, + the long ones
        # every ordered pair of DIFFERENT programs at least once (state left behind by an earlier
        # compilation is the hazard), the option sets rotating, plus a random sample of the other pairs
        first_req = {}
        for idx, rq in enumerate(reqs):
            first_req.setdefault(rq['p'], []).append(idx + 1)
        core = []
        k = 0
        for pa in sorted(first_req):
            for pb in sorted(first_req):
                if pa != pb:
                    ra = first_req[pa][k % len(first_req[pa])]
                    rb = first_req[pb][(k // 2) % len(first_req[pb])]
                    core.append([ra, rb])
                    k += 1
        coreset = {tuple(h) for h in core}
        allh = [h for h in allh if len(h) == 1] + core + [h for h in pairs if tuple(h) not in coreset][:40] + \
            [h for h in allh if len(h) > 2]
    other = os.path.join(work, 'elsewhere')
    os.makedirs(other, exist_ok=True)
    envs = [{'seed': 0}, {'seed': 1, 'cwd': other}, {'seed': 12345, 'fake_time': 2000000000},
            {'seed': 987654321, 'cwd': '/', 'fake_time': 86400}]
    jobs = []
    for i, h in enumerate(allh):
        jobs.append((envs[i % len(envs)], [reqs[j - 1] for j in h], work))
    # every distinct request alone under three hash seeds
    for j in range(n):
        for e in envs[:3]:
            jobs.append((e, [reqs[j]], work))
            allh.append([j + 1])
    results = par.pmap(_child, jobs, chunk=1)
    trace = []
    evmeta = []
    for (envd, history, _), h, res in zip(jobs, allh, results):
        if isinstance(res, dict) and 'error' in res:
            raise Machinery('child process failed: ' + res['error'])
        trace.append({'k': 'proc', 'env': json.dumps(envd, sort_keys=True), 'req': 0, 'res': ''})
        evmeta.append(None)
        for rid, rr in zip(h, res):
            trace.append({'k': 'req', 'env': '', 'req': rid, 'res': rr['res']})
            evmeta.append((envd, h, rid, rr))
    tpath = os.path.join(work, 'trace.json')
    tlc.write_json(tpath, trace)
    rt = tlc.run_tlc('Trace_Session', TRACE_CFG, env={'TRACE': tpath}, workers=1, timeout=1700, heap='8g')
    if rt.error or len(rt.printed) != 1:
        raise Machinery('Trace_Session: ' + (rt.error or 'no verdict')[:1500])
    v = rt.printed[0]
    first = {}
    for m in evmeta:
        if m and m[2] not in first:
            first[m[2]] = m
    for l in v['bad']:
        envd, h, rid, rr = evmeta[l - 1]
        rq = reqs[rid - 1]
        f = first[rid]
        what = 'listing' if (rr.get('sec') and f[3].get('sec') == rr.get('sec')) else 'sections' if rr.get('sec') else rr.get('detail')
        ctx.violation('differs', '%s:p%d:%s' % (rq['k'], rq['p'], what),
                      {'request': rq, 'program': PROGRAMS[rq['p']], 'history': [reqs[j - 1] for j in h], 'env': envd,
                       'result': rr, 'first_seen': {'env': f[0], 'history': [reqs[j - 1] for j in f[1]], 'result': f[3]}})
    # binding demonstration: flip one recorded digest
    demo = list(trace)
    idx = [i for i, e in enumerate(demo) if e['k'] == 'req']
    k = idx[len(idx) // 2]
    demo[k] = dict(demo[k], res=demo[k]['res'] + 'x')
    dpath = os.path.join(work, 'demo.json')
    tlc.write_json(dpath, demo)
    rd = tlc.run_tlc('Trace_Session', TRACE_CFG, env={'TRACE': dpath}, workers=1, timeout=1700, heap='8g')
    demo_ok = (not rd.error) and len(rd.printed) == 1 and (k + 1) in rd.printed[0]['bad']
    ctx.coverage.update({
        'states': r.distinct + rt.distinct, 'transitions': r.generated + rt.generated,
        'traces_validated_against_impl': 1,
        'trace_events': len(trace), 'processes': len(jobs), 'requests': n,
        'histories_exhaustive_len': K, 'histories_run': len(jobs),
        'exhaustive': not ctx.quick(),
        'binding_demo': {'corrupted': 1, 'rejected': 1 if demo_ok else 0},
        'samples': [{'history': [reqs[j - 1] for j in allh[len(allh) // 3]]}],
    })
    ctx.assumptions += ['result digest = sha1 over sections 1-4 and the listing (compile) or events+outcome+ticks (run)',
                        'the clock is shifted by patching time.time / datetime.now in the child before qbee is imported']
    if not demo_ok:
        raise Machinery('binding demonstration failed: corrupted digest accepted')


def replay(ctx, case):
    print(json.dumps(case, indent=1)[:4000])
    ctx.coverage.update({'evaluations': 1, 'distinct_nontrivial': 2, 'samples': [case.get('request')]})
