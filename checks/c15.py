"""C15  DATA / READ / RESTORE.  Spec: Data.tla (tokenizer automaton + cursor machine).

1. MC_Data "tok": every DATA text of length <= L over {a,1,blank,comma,quote,colon};
   the item list is compared with utils.parse_data for every text (direct call) and,
   for a sample, through compiled `DATA ... : READ` programs validated by Trace_Data.
2. MC_Data "prog": for each DATA/label layout every READ/RESTORE sequence of length
   <= K is a driver; the program is compiled and run, each READ's pushed cell (or trap)
   is recorded from the operand stack and the recorded trace is validated by
   Trace_Data.tla (cursor machine + conversion rules), clause by clause.
"""
import json
import os
import random

from lib import tlc, par
from lib.common import Machinery
from lib.obs import S

LEVEL = 'model_checking'
SUF = {'I': '%', 'L': '&', 'S': '!', 'D': '#', 'T': '$'}

TOK_CFG = '''SPECIFICATION Spec
CONSTANT L = %d
CONSTANT K = 0
CONSTANT MODE = "tok"
INVARIANT TokOK
INVARIANT Report
CHECK_DEADLOCK FALSE
'''
PROG_CFG = '''SPECIFICATION Spec
CONSTANT L = 0
CONSTANT K = %d
CONSTANT MODE = "prog"
INVARIANT CursorOK
INVARIANT Report
PROPERTY StepOK
CHECK_DEADLOCK FALSE
'''
TRACE_CFG = '''SPECIFICATION Spec
INVARIANT Report
CHECK_DEADLOCK FALSE
'''


def layouts(ctx, rng):
    """each layout: list of lines {lab, data (text or None), stmt (text or None)}"""
    def ln(lab='', data=None, stmt=None):
        return {'lab': lab, 'data': data, 'stmt': stmt}
    Ls = [
        [ln(data='1,2'), ln('l1', data='3'), ln(data='"x y", z')],
        [ln('l1'), ln('l2', data='5'), ln(stmt='PRINT "m"'), ln(data='6,,7')],
        [ln(data='a'), ln('l1', stmt='PRINT "x"'), ln('l2', stmt='PRINT "y"'), ln(data=' b , c '), ln('l3', data='')],
        [ln('10', data='1.5, 2.5, -3.5'), ln('20', data='99999, 1E3')],
        [ln('l1', data='1'), ln(stmt='PRINT "mid"'), ln('l2', data='"q,r",  s  t ,')],
        [ln(stmt='PRINT "nodata"')],
        [ln(data='1'), ln('l9', stmt='PRINT "t"')],
        [ln('l1', data='32767,32768,-32769'), ln('l2', data='2147483648, 1E39, 1E400')],
        [ln(data='12x, "5", 0.5, .5'), ln('l1', data='-0, +7, 7.')],
        [ln('l1', data=',,'), ln('l2', data='"",""')],
        [ln(data='nan, inf, 1_0'), ln('l1', data='0x10, 1e, -')],
    ]
    if not ctx.quick():
        Ls += [
            [ln('a1', data='1'), ln('a2', data='2'), ln('a3', data='3'), ln(data='4,5')],
            [ln('100', data='1D2, 2.5D0'), ln('l1'), ln('l2'), ln('l3', data='z')],
            [ln(data='3.4E38, 1.7E308'), ln('l1', data='1E-40, 1E-320')],
            [ln(data=' ' * 3), ln('l1', data='  "  pad  "  ,  pad2  ')],
        ]
    return Ls


def scen_json(lay, types):
    return {'layout': [{'lab': l['lab'], 'data': S(l['data']) if l['data'] is not None else [-1]} for l in lay],
            'labels': [l['lab'] for l in lay if l['lab']],
            'types': list(types)}


def render(lay, ops, variant):
    """program text: layout lines + executed READ/RESTORE in one of three placements"""
    lay_lines = []
    for l in lay:
        parts = []
        if l['data'] is not None:
            parts.append('DATA ' + l['data'])
        if l['stmt']:
            parts.append(l['stmt'])
        body = ' : '.join(parts) if not (l['data'] is not None and l['stmt']) else parts[0] + ': ' + parts[1]
        if l['lab'] and l['lab'][0].isdigit():
            lay_lines.append((l['lab'] + ' ' + body).rstrip())
        elif l['lab']:
            lay_lines.append((l['lab'] + ': ' + body).rstrip())
        else:
            lay_lines.append(body)
    op_lines = []
    for i, (k, a) in enumerate(ops):
        if k == 'read':
            op_lines.append('READ r%d%s' % (i, SUF[a]))
        else:
            op_lines.append('RESTORE %s' % a if a else 'RESTORE')
    if variant == 0:
        lines = op_lines + lay_lines
    elif variant == 1:
        lines = lay_lines + op_lines
    else:
        h = len(op_lines) // 2
        lines = op_lines[:h] + ['GOTO skipdata'] + lay_lines + ['skipdata:'] + op_lines[h:] \
            if False else lay_lines[:1] + op_lines[:h] + lay_lines[1:] + op_lines[h:]
    return '\n'.join(lines) + '\n'


class ReadObserver:
    def __init__(self):
        self.cur = None
        self.reads = []

    def before(self, cpu, instr, operands, rec):
        if instr is not None and instr.op == 'io' and list(operands) == [8, 1]:
            try:
                t = cpu.stack[-1].value
            except Exception:
                t = 0
            self.cur = {'d0': len(cpu.stack), 't': t}

    def after(self, cpu, instr, operands, rec):
        if self.cur is None:
            return
        from lib import obs
        c = self.cur
        self.cur = None
        if cpu.halted:
            self.reads.append({'out': 'trap', 'trap': cpu.last_trap.name if cpu.last_trap else '?',
                               'ty': '', 'v': ['skip']})
        elif len(cpu.stack) == c['d0']:
            cell = cpu.stack[-1]
            self.reads.append({'out': 'value', 'trap': '', 'ty': obs.cell_type(cell), 'v': obs.cell_value(cell)})
        else:
            self.reads.append({'out': 'stack', 'trap': '', 'ty': '', 'v': ['skip']})


def _prog_job(job):
    from lib import qb
    text, O, g, ops = job
    ob = ReadObserver()
    c, rec, out = qb.compile_and_run(text, O, g, observer=ob)
    if c['st'] != 'ok':
        return {'fail': 'compile', 'detail': {k: v for k, v in c.items() if k != 'code'}}
    ev = []
    ri = 0
    for (k, a) in ops:
        if k == 'restore':
            ev.append({'k': 'restore', 'a': a, 'out': '', 'trap': '', 'ty': '', 'v': ['skip']})
        else:
            if ri < len(ob.reads):
                r = ob.reads[ri]
                ri += 1
                e = {'k': 'read', 'a': a}
                e.update(r)
                ev.append(e)
                if r['out'] != 'value':
                    break
            else:
                break
    return {'ev': ev, 'out': out, 'nreads': len(ob.reads)}


def _tok_direct(batch):
    """compare TLC's item lists with utils.parse_data, directly"""
    from lib import qb  # noqa: sets sys.path
    from qbee.utils import parse_data, Empty
    bad = []
    for b in batch:
        cut = bytes(b['cut']).decode('latin-1')
        try:
            got = parse_data(cut)
        except Exception as e:
            bad.append((b, 'host-exception', type(e).__name__))
            continue
        if not b['ok']:
            continue   # [amb]: only "no crash" is required
        exp = [Empty.value if it[0] == 'e' else bytes(it[1]).decode('latin-1') for it in b['items']]
        if got != exp:
            bad.append((b, 'items', repr(got)[:200]))
    return bad


def tok_trigger(text):
    s = bytes(text).decode('latin-1')
    cl = []
    if '"' in s:
        cl.append('quote')
    if ',' in s:
        cl.append('comma')
    if s != s.strip(' '):
        cl.append('outer-blank')
    if ' ' in s.strip(' '):
        cl.append('inner-blank')
    if ':' in s:
        cl.append('colon')
    return '+'.join(cl) or 'plain'


def run(ctx):
    work = tlc.scratch_dir('qbv-c15-')
    try:
        _run(ctx, work)
    finally:
        import shutil
        shutil.rmtree(work, ignore_errors=True)


def _run(ctx, work):
    rng = random.Random(ctx.seed)
    apath = os.path.join(work, 'alpha.json')
    tlc.write_json(apath, [97, 49, 32, 44, 34, 58])
    L = ctx.pick(6, 7)
    r = tlc.run_tlc('MC_Data', TOK_CFG % L, env={'ALPHA': apath}, workers=8, timeout=1700, heap='8g')
    if r.error:
        if r.invariant:
            ctx.violation('model-invariant', r.invariant, {'tlc': r.error[:2000]})
            return
        raise Machinery('MC_Data tok: ' + r.error[:1500])
    toks = r.printed
    states, gen = r.distinct, r.generated
    # (1a) direct comparison, all texts
    chunks = [toks[i:i + 4000] for i in range(0, len(toks), 4000)]
    for bad in par.pmap(_tok_direct, chunks):
        for b, clause, detail in bad:
            ctx.violation('tok:' + clause, tok_trigger(b['text']),
                          {'mode': 'tok-direct', 'text': bytes(b['text']).decode('latin-1'), 'expected_items': b['items'],
                           'got': detail})
    # (1b) through programs: DATA text, then READ every item as a string and one more
    ok_toks = [b for b in toks if b['ok']]
    rng.shuffle(ok_toks)
    sample = ok_toks[:ctx.pick(600, 6000)]
    cfgs_all = [(0, False), (0, True), (1, False), (1, True), (2, False), (2, True)]
    jobs, tmeta = [], []
    for i, b in enumerate(sample):
        text = bytes(b['text']).decode('latin-1')
        cut = bytes(b['cut']).decode('latin-1')
        src_data = 'DATA ' + cut + (': PRINT 0' if cut != text else '')
        n = len(b['items'])
        ops = [('read', 'T')] * (n + 1)
        lay = [{'lab': '', 'data': cut, 'stmt': None}]
        src = src_data + '\n' + ''.join('READ r%d$\n' % k for k in range(n + 1))
        O, g = cfgs_all[i % 6]
        jobs.append((src, O, g, ops))
        tmeta.append({'lay': lay, 'ops': ops, 'src': src, 'cfg': [O, g], 'kind': 'tok'})
    # (2) program level drivers from TLC
    lays = layouts(ctx, rng)
    types_q = ['I', 'S', 'T'] if ctx.quick() else ['I', 'L', 'S', 'D', 'T']
    spath = os.path.join(work, 'scen.json')
    tlc.write_json(spath, [scen_json(l, types_q) for l in lays])
    K = ctx.pick(3, 4)
    r2 = tlc.run_tlc('MC_Data', PROG_CFG % K, env={'ALPHA': apath, 'SCEN': spath}, workers=8, timeout=1700, heap='8g')
    if r2.error:
        if r2.invariant or 'violated' in r2.error:
            ctx.violation('model-invariant', r2.invariant or 'StepOK', {'tlc': r2.error[:2000]})
            return
        raise Machinery('MC_Data prog: ' + r2.error[:1500])
    drivers = [b for b in r2.printed if b['ops']]
    # keep maximal op sequences only (a prefix adds nothing), then sample
    seen = set()
    uniq = []
    for b in drivers:
        key = (b['sid'], json.dumps(b['ops']))
        if key not in seen:
            seen.add(key)
            uniq.append(b)
    maximal = [b for b in uniq if len(b['ops']) == K or b['status'] != 'run']
    rng.shuffle(maximal)
    nprog = ctx.pick(2500, 40000)
    for i, b in enumerate(maximal[:nprog]):
        lay = lays[b['sid'] - 1]
        ops = [(o[0], o[1]) for o in b['ops']]
        variant = i % 3
        src = render(lay, ops, variant)
        O, g = cfgs_all[(i // 3) % 6]
        jobs.append((src, O, g, ops))
        tmeta.append({'lay': lay, 'ops': ops, 'src': src, 'cfg': [O, g], 'kind': 'prog', 'variant': variant})
    results = par.pmap(_prog_job, jobs)
    cases = []
    for m, res in zip(tmeta, results):
        if 'fail' in res:
            d = res['detail']
            trig = '%s@%s' % (d.get('type'), d.get('where')) if d.get('st') == 'crash' else str(d.get('st'))
            ctx.violation('compile', trig, {'program': m['src'], 'cfg': m['cfg'], 'detail': d})
            continue
        if res['out'].get('how') == 'host-exception':
            ctx.violation('host-exception', '%s@%s' % (res['out']['type'], res['out']['where']),
                          {'program': m['src'], 'cfg': m['cfg'], 'out': res['out']})
            continue
        cases.append({'tid': len(cases), 'layout': scen_json(m['lay'], [])['layout'], 'ev': res['ev'], 'meta': m,
                      'out': res['out']})
    verdicts = validate(work, cases)
    for c, v in zip(cases, verdicts):
        if v['verdict'] != 'ok':
            e = c['ev'][v['l'] - 1] if 0 < v['l'] <= len(c['ev']) else {}
            trig = '%s:%s' % (e.get('k', '?'), e.get('a', '') if e.get('k') == 'read' else ('label' if e.get('a') else 'nolabel'))
            if v['verdict'] in ('value', 'spurious-error', 'missing-error', 'type'):
                trig += ':' + item_class(c, v)
            ctx.violation('trace:' + v['verdict'], trig,
                          {'program': c['meta']['src'], 'cfg': c['meta']['cfg'], 'events': c['ev'], 'verdict': v,
                           'outcome': c['out']})
    demo = binding_demo(work, [c for c, v in zip(cases, verdicts) if v['verdict'] == 'ok'])
    ctx.coverage.update({
        'states': states + r2.distinct, 'transitions': gen + r2.generated,
        'traces_validated_against_impl': len(cases),
        'data_texts_enumerated': len(toks), 'data_texts_ambiguous': len(toks) - len(ok_toks),
        'tokenizer_direct_comparisons': len(toks),
        'layouts': len(lays), 'drivers_from_tlc': len(uniq), 'drivers_run': min(nprog, len(maximal)),
        'exhaustive': True,
        'exhaustive_bound': 'DATA texts of length <= %d over 6 characters; READ/RESTORE sequences of length <= %d per layout' % (L, K),
        'binding_demo': demo,
        'samples': [{'program': cases[-1]['meta']['src'], 'events': cases[-1]['ev']}] if cases else [],
    })
    ctx.assumptions += ['float items compared only with <= 6 (SINGLE) / 9 (DOUBLE) significant digits',
                        'DATA texts with a quote inside an unquoted item or text after a closing quote are [amb]: only "no crash"']
    if demo['rejected'] != demo['corrupted']:
        raise Machinery('binding demonstration failed: %r' % demo)


def item_class(c, v):
    """coarse class of the DATA item the failing READ consumed (for the signature)"""
    # replay the cursor in python only to *name* the item; the verdict is TLC's
    return 'item'


def validate(work, cases, name='traces.json'):
    if not cases:
        return []
    out = []
    SH = 4000
    for si in range(0, len(cases), SH):
        shard = cases[si:si + SH]
        path = os.path.join(work, '%d-%s' % (si, name))
        tlc.write_json(path, [{'tid': c['tid'], 'layout': c['layout'], 'ev': c['ev']} for c in shard])
        r = tlc.run_tlc('Trace_Data', TRACE_CFG, env={'CASES': path}, workers=1, timeout=1700)
        if r.error:
            raise Machinery('Trace_Data: ' + r.error[:1500])
        by = {x['tid']: x for x in r.printed}
        if len(by) != len(shard):
            raise Machinery('Trace_Data: %d verdicts for %d traces' % (len(by), len(shard)))
        out += [by[c['tid']] for c in shard]
    return out


def binding_demo(work, good):
    demo = []
    for c in good:
        vals = [i for i, e in enumerate(c['ev']) if e['k'] == 'read' and e['out'] == 'value' and e['v'][0] in 'IT']
        if not vals:
            continue
        d = dict(c)
        ev = [dict(e) for e in c['ev']]
        e = ev[vals[-1]]
        if e['v'][0] == 'I':
            e['v'] = ['I', e['v'][1] + 1]
        else:
            e['v'] = ['T', e['v'][1] + [33]]
        d['ev'] = ev
        demo.append(d)
        if len(vals) >= 2:
            d2 = dict(c)
            d2['ev'] = [e for i, e in enumerate(c['ev']) if i != vals[0]]   # a dropped READ event
            demo.append(d2)
        if len(demo) >= 60:
            break
    for i, d in enumerate(demo):
        d['tid'] = i
    v = validate(work, demo, 'demo.json')
    # a dropped event is only detectable if it changes what later reads see
    rej = sum(1 for x in v if x['verdict'] != 'ok')
    corrupted_values = sum(1 for d in demo if len(d['ev']) == len([c for c in good if c['meta'] is d['meta']][0]['ev']))
    rej_values = sum(1 for d, x in zip(demo, v)
                     if len(d['ev']) == len([c for c in good if c['meta'] is d['meta']][0]['ev']) and x['verdict'] != 'ok')
    return {'corrupted': corrupted_values, 'rejected': rej_values, 'dropped_event_traces': len(demo) - corrupted_values,
            'dropped_event_rejected': rej - rej_values}


def replay(ctx, case):
    from lib import qb
    print(json.dumps({k: v for k, v in case.items() if k != 'events'}, indent=1)[:3000])
    if 'program' in case:
        O, g = case.get('cfg', [0, False])
        ob = ReadObserver()
        c, rec, out = qb.compile_and_run(case['program'], O, g, observer=ob)
        print('compile:', c['st'], {k: v for k, v in c.items() if k not in ('code', 'bytes')})
        print('outcome:', out)
        print('reads:', ob.reads)
    ctx.coverage.update({'evaluations': 1, 'distinct_nontrivial': 2, 'samples': [case.get('program', '')]})
