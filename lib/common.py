"""Check context: violations, known findings, evidence, replay files."""
import hashlib
import json
import os
import sys
import time

VERIF = os.path.dirname(os.path.dirname(os.path.abspath(__file__)))
REPO = os.environ.get('QBEE_REPO', '/repo')


class Machinery(Exception):
    """Something in the verification machinery failed: exit 2, never VIOLATION."""


def load_findings():
    path = os.path.join(VERIF, 'known_findings.json')
    if not os.path.exists(path):
        return {'open': [], 'fixed': []}
    with open(path) as f:
        return json.load(f)


class Ctx:
    def __init__(self, pid, tier, seed, level):
        self.pid = pid
        self.tier = tier
        self.seed = seed
        self.level = level
        self.t0 = time.time()
        self.violations = {}      # signature -> first case
        self.vcount = {}
        self.known_hits = {}      # signature -> count
        self.coverage = {}
        self.assumptions = []
        self.notes = []
        f = load_findings()
        self.open = {e['signature']: e for e in f.get('open', [])
                     if e.get('property') == pid}

    # -- reporting ---------------------------------------------------------
    def violation(self, clause, trigger, case):
        """clause: which comparison failed; trigger: mechanically computed
        narrowest cause class; case: JSON-able dict that replays it."""
        sig = '%s|%s|%s' % (self.pid, clause, trigger)
        if sig in self.open:
            self.known_hits[sig] = self.known_hits.get(sig, 0) + 1
            return sig
        self.vcount[sig] = self.vcount.get(sig, 0) + 1
        if sig not in self.violations:
            self.violations[sig] = case
        return sig

    def quick(self):
        return self.tier == 'quick'

    def pick(self, quick, thorough):
        return quick if self.tier == 'quick' else thorough

    # -- finishing ---------------------------------------------------------
    def finish(self):
        wall = time.time() - self.t0
        out_lines = []
        for sig, n in sorted(self.known_hits.items()):
            e = self.open[sig]
            out_lines.append('KNOWN-FINDING: property=%s %s (%d cases this run) witness=%s'
                             % (self.pid, sig, n, json.dumps(e.get('witness', ''))[:300]))
        rc = 0
        rdir = os.path.join(VERIF, 'replays', self.pid)
        for sig, case in sorted(self.violations.items()):
            os.makedirs(rdir, exist_ok=True)
            blob = json.dumps({'property': self.pid, 'signature': sig, 'case': case},
                              sort_keys=True, indent=1, default=str)
            h = hashlib.sha1(blob.encode()).hexdigest()[:12]
            path = os.path.join(rdir, h + '.json')
            with open(path, 'w') as f:
                f.write(blob)
            out_lines.append('VIOLATION property=%s replay=%s signature=%s count=%d'
                             % (self.pid, path, sig, self.vcount[sig]))
            rc = 1
        cov = dict(self.coverage)
        cov.setdefault('samples', [])
        if not cov['samples']:
            cov['samples'] = ['(none)']
        cov['known_finding_hits'] = dict(self.known_hits)
        ev = {
            'property_id': self.pid,
            'tier': self.tier,
            'seed': self.seed,
            'level': self.level,
            'coverage': cov,
            'assumptions': self.assumptions,
            'wall_s': round(wall, 2),
            'violations': len(self.violations),
            'notes': self.notes,
        }
        # evidence describes runs against /repo itself; a run against another tree (QBEE_REPO=<scratch copy with a
        # seeded change>) must not overwrite it
        evdir = os.path.join(VERIF, 'evidence') if os.path.realpath(REPO) == '/repo' else os.path.join(VERIF, 'replays', '_other_tree')
        os.makedirs(evdir, exist_ok=True)
        with open(os.path.join(evdir, self.pid + '.json'), 'w') as f:
            json.dump(ev, f, indent=1, sort_keys=True, default=str)
            f.write('\n')
        for l in out_lines:
            print(l)
        print('%s %s: %s in %.1fs  (%s)' % (
            self.pid, self.tier, 'OK' if rc == 0 else 'VIOLATIONS', wall,
            ', '.join('%s=%s' % (k, v) for k, v in cov.items()
                      if isinstance(v, (int, float, bool)))))
        sys.stdout.flush()
        return rc


def sha(obj):
    return hashlib.sha1(json.dumps(obj, sort_keys=True, default=str).encode()).hexdigest()[:12]
