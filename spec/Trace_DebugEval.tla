---------------------------- MODULE Trace_DebugEval ----------------------------
(***************************************************************************)
(* Agreement of the debugger's `print <expr>` with the program (C13).      *)
(* A case is one debugging session; a probe is one question put to the     *)
(* debugger at a stop:                                                     *)
(*   what  "item"     an item of the PRINT statement the program is about  *)
(*                    to execute (pv = the value the program then prints,  *)
(*                    as exact text of its typed value)                    *)
(*         "unknown"  a name that is not declared anywhere                 *)
(*         "subscript" an element far outside an array's bounds            *)
(*         "after"    any expression once the program has finished         *)
(*         "header-local", "header-caller"  names asked for while stopped  *)
(*                    on a procedure header reached by `step`              *)
(*   dk    "val" (dv = exact text of the answer), "unassigned" (the        *)
(*         debugger says the variable has no value yet), "evalerr",        *)
(*         "parse", "crash" (a host exception escaped Cmd.onecmd)          *)
(*   same  1 iff the digest of the machine state (memory, stack, frames,   *)
(*         device calls) is unchanged by the question                      *)
(* The verdict of a case lists the failing probes with the failing clause.       *)
(***************************************************************************)
EXTENDS Integers, Sequences, FiniteSets, TLC, Json, IOUtils

Cases == JsonDeserialize(IOEnv.CASES)

ProbeVerdict(p) ==
    IF p.dk = "crash" THEN "crash"
    ELSE IF p.same # 1 THEN "state-altered"
    ELSE IF p.what = "item" THEN
        (IF p.dk = "val" THEN (IF p.dv = p.pv THEN "ok" ELSE "value")
         ELSE IF p.dk = "unassigned" THEN "ok"      \* the property speaks of assigned variables only
         ELSE IF p.dk = "parse" THEN "parse-error"
         ELSE "eval-error")
    \* stopped on a SUB/FUNCTION header (CALL executed, FRAME not yet): a name local to the callee has no
    \* storage yet, a name of the caller still has the value the caller printed just before the call
    ELSE IF p.what = "header-local" THEN (IF p.dk \in {"evalerr", "unassigned"} THEN "ok" ELSE "value-from-wrong-frame")
    ELSE IF p.what = "header-caller" THEN
        (IF p.dk \in {"evalerr", "unassigned"} \/ (p.dk = "val" /\ p.dv = p.pv) THEN "ok" ELSE "value-from-wrong-frame")
    \* ("no value yet" / "array not initialized" are evaluation errors too)
    ELSE IF p.what \in {"unknown", "subscript"} THEN (IF p.dk \in {"evalerr", "unassigned"} THEN "ok" ELSE "error-not-reported")
    ELSE "ok"                                   \* after the end anything but a crash is acceptable

\* all failing probes (the 12 first are reported); no recursion: a session may ask thousands of questions
Failing(ps) == {k \in 1..Len(ps) : ProbeVerdict(ps[k]) # "ok"}
Walk(ps) == LET F == Failing(ps)
                first == {k \in F : Cardinality({j \in F : j < k}) < 12}
            IN {[v |-> ProbeVerdict(ps[k]), k |-> k] : k \in first}

VARIABLE i
Init == i = 1
Next == i <= Len(Cases) /\ PrintT(ToJson([id |-> Cases[i].id, r |-> Walk(Cases[i].probes), n |-> Len(Cases[i].probes)])) /\ i' = i + 1
Spec == Init /\ [][Next]_i
=============================================================================
