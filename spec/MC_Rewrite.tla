----------------------------- MODULE MC_Rewrite -----------------------------
(***************************************************************************)
(* Orbit of a program text under the neutral rewritings of Rewrite.tla.    *)
(* For every case (a statement structure taken from a real program, or a   *)
(* synthetic one) TLC starts from the extremes (every applicable site of   *)
(* a subset of at most MaxKinds kinds, any styles) and takes up to D       *)
(* single rewriting steps, checking Neutral in every surface reached and   *)
(* printing the surfaces for the harness to render and compile.            *)
(***************************************************************************)
EXTENDS Integers, Sequences, FiniteSets, TLC, Json, IOUtils

CONSTANTS D, MaxKinds, NK, NB, NN, Strict
Cases == JsonDeserialize(IOEnv.CASES)
R(c) == INSTANCE Rewrite WITH Stm <- Cases[c].stm

VARIABLES c, s, d
vars == <<c, s, d>>

\* (MaxKinds >= 10: walks start from the plain text or from the surface with every site of every kind)
\* MaxKinds bounds how many kinds of rewriting (site kinds and styles) the starting surface mixes
Init == /\ c \in 1..Len(Cases)
        /\ \E ks \in (IF MaxKinds >= 10 THEN {{}, R(c)!Kinds} ELSE SUBSET R(c)!Kinds), ka \in 0..(NK - 1), bl \in 0..(NB - 1), nm \in 0..(NN - 1) :
              /\ Cardinality(ks) + (IF ka # 0 THEN 1 ELSE 0) + (IF bl # 0 THEN 1 ELSE 0) + (IF nm # 0 THEN 1 ELSE 0) <= MaxKinds
              /\ s = [R(c)!AllOf(ks) EXCEPT !.kase = ka, !.blank = bl, !.names = nm]
        /\ d = 0
Next == /\ d < D
        /\ \E t \in R(c)!Succs(s) : t # s /\ R(c)!Legal(t) /\ s' = t
        /\ d' = d + 1
        /\ UNCHANGED c
Spec == Init /\ [][Next]_vars

V == <<c, s>>          \* VIEW for exhaustive runs: the depth counter adds no behaviour
LegalInv == R(c)!Legal(s)
Neutral == R(c)!Neutral(s)
Report == d = D => PrintT(ToJson([c |-> c, s |-> s]))      \* the surfaces at the end of each walk (all of them when D = 0)
=============================================================================
