------------------------------ MODULE QVMTypes ------------------------------
(***************************************************************************)
(* Type-level semantics of the QVM instruction set (DESIGN.md Appendix J,  *)
(* column "pops -> pushes"): for every instruction, which operand types it *)
(* requires on the stack (top first) and which types it leaves.            *)
(*                                                                         *)
(* Cell types: I L S D T (values), R (reference).  Return addresses are    *)
(* LONG cells.  An instruction is given as [b |-> base mnemonic, t |->     *)
(* type characters of the mnemonic, a |-> operands].                       *)
(* Sig(ins, top, n) = [ok, pops, push] where top = types of the topmost    *)
(* cells before the instruction (top first), n = value of the top cell     *)
(* when it is an INTEGER count (PRINT / INPUT).  ok = FALSE: the operands  *)
(* on the stack do not fit the instruction (a machine-level type fault).   *)
(***************************************************************************)
EXTENDS Integers, Sequences

TC(c) == CASE c = "%" -> "I" [] c = "&" -> "L" [] c = "!" -> "S" [] c = "#" -> "D" [] c = "$" -> "T" [] c = "@" -> "R" [] OTHER -> "?"
Num(t) == t \in {"I", "L", "S", "D"}
Intg(t) == t \in {"I", "L"}
Val(t) == t \in {"I", "L", "S", "D", "T"}

Has(top, k) == Len(top) >= k
OK(p, ps) == [ok |-> TRUE, pops |-> p, push |-> ps]
BAD == [ok |-> FALSE, pops |-> 0, push |-> <<>>]
Need(top, req) == Len(top) >= Len(req) /\ \A i \in 1..Len(req) : top[i] = req[i]
Sig1(top, req, ps) == IF Need(top, req) THEN OK(Len(req), ps) ELSE BAD

\* device operations: <<required operand types (top first), pushed types>>
IoSig(dev, op, top, n) ==
    CASE dev = "terminal" /\ op = "cls" -> OK(0, <<>>)
      [] dev = "terminal" /\ op = "print" -> IF Has(top, 1) /\ top[1] = "I" /\ n >= 0 THEN OK(n + 1, <<>>) ELSE BAD
      [] dev = "terminal" /\ op = "color" -> Sig1(top, <<"I", "I", "I">>, <<>>)
      [] dev = "terminal" /\ op = "view_print" -> Sig1(top, <<"I", "I">>, <<>>)
      [] dev = "terminal" /\ op = "set_mode" -> Sig1(top, <<"I", "I", "I", "I">>, <<>>)
      [] dev = "terminal" /\ op = "width" -> Sig1(top, <<"I", "I">>, <<>>)
      [] dev = "terminal" /\ op = "locate" -> Sig1(top, <<"I", "I", "I", "I", "I">>, <<>>)
      [] dev = "terminal" /\ op = "inkey" -> OK(0, <<"T">>)
      [] dev = "terminal" /\ op = "input" ->
            \* nvars, type ids..., prompt_question, prompt, same_line  ->  one value per variable (types by id)
            IF Has(top, 1) /\ top[1] = "I" /\ n >= 1 THEN [ok |-> TRUE, pops |-> n + 4, push |-> <<"*input">>] ELSE BAD
      [] dev = "pcspkr" /\ op = "beep" -> OK(0, <<>>)
      [] dev = "pcspkr" /\ op = "play" -> Sig1(top, <<"T">>, <<>>)
      [] dev = "pcspkr" /\ op = "sound" -> Sig1(top, <<"L", "I">>, <<>>)
      [] dev = "time" /\ op = "get_time" -> OK(0, <<"S">>)
      [] dev = "rng" /\ op = "seed" -> Sig1(top, <<"S">>, <<>>)
      [] dev = "rng" /\ op = "rnd" -> Sig1(top, <<"S">>, <<"S">>)
      [] dev = "memory" /\ op = "poke" -> Sig1(top, <<"I", "L">>, <<>>)
      [] dev = "memory" /\ op = "peek" -> Sig1(top, <<"L">>, <<"I">>)
      [] dev = "memory" /\ op = "set_segment" -> Sig1(top, <<"L">>, <<>>)
      [] dev = "memory" /\ op = "set_default_segment" -> OK(0, <<>>)
      [] dev = "memory" /\ op = "bsave" -> Sig1(top, <<"L", "L", "T">>, <<>>)
      [] dev = "memory" /\ op = "bload" -> Sig1(top, <<"L", "T">>, <<>>)
      [] dev = "data" /\ op = "read" -> IF Has(top, 1) /\ top[1] = "I" THEN [ok |-> TRUE, pops |-> 1, push |-> <<"*read">>] ELSE BAD
      [] dev = "data" /\ op = "restore" -> Sig1(top, <<"I">>, <<>>)
      [] dev = "fs" /\ op = "kill" -> Sig1(top, <<"T">>, <<>>)
      [] OTHER -> BAD

Sig(ins, top, n) ==
    LET b == ins.b
        t1 == IF Len(ins.t) >= 1 THEN TC(SubSeq(ins.t, 1, 1)) ELSE "?"
        t2 == IF Len(ins.t) >= 2 THEN TC(SubSeq(ins.t, 2, 2)) ELSE "?"
        x == IF Has(top, 1) THEN top[1] ELSE "-"
        y == IF Has(top, 2) THEN top[2] ELSE "-"
        z == IF Has(top, 3) THEN top[3] ELSE "-"
    IN
    CASE b \in {"nop", "halt", "jmp", "errhand", "errres", "errresn"} -> OK(0, <<>>)
      [] b \in {"push", "pushm2", "pushm1", "push0", "push1", "push2"} -> OK(0, <<t1>>)
      [] b = "pop" -> IF Has(top, 1) THEN OK(1, <<>>) ELSE BAD
      [] b = "dupl" -> IF Has(top, 1) THEN OK(1, <<x, x>>) ELSE BAD
      [] b = "swap" -> IF Has(top, 2) THEN OK(2, <<x, y>>) ELSE BAD                 \* pushed bottom-first: new top = y
      [] b = "swapprev" -> IF Has(top, 3) THEN OK(3, <<y, z, x>>) ELSE BAD
      [] b = "conv" -> IF x = t1 THEN OK(1, <<t2>>) ELSE BAD
      [] b = "add" -> IF x = y /\ (Num(x) \/ x = "T") THEN OK(2, <<x>>) ELSE BAD
      [] b \in {"sub", "mul", "exp"} -> IF x = y /\ Num(x) THEN OK(2, <<x>>) ELSE BAD
      [] b = "div" -> IF x = y /\ Num(x) THEN OK(2, <<IF Intg(x) THEN "S" ELSE x>>) ELSE BAD
      [] b \in {"idiv", "mod", "and", "or", "xor", "eqv", "imp"} -> IF x = y /\ Intg(x) THEN OK(2, <<x>>) ELSE BAD
      [] b \in {"neg", "abs", "sign"} -> IF Num(x) THEN OK(1, <<x>>) ELSE BAD
      [] b = "not" -> IF Intg(x) THEN OK(1, <<x>>) ELSE BAD
      [] b = "cmp" -> IF x = y /\ Val(x) THEN OK(2, <<"I">>) ELSE BAD
      [] b \in {"eq", "ne"} -> IF x = "I" THEN OK(1, <<"I">>) ELSE BAD
      [] b \in {"lt", "le", "gt", "ge"} -> IF Num(x) THEN OK(1, <<"I">>) ELSE BAD
      [] b = "cint" -> IF Num(x) THEN OK(1, <<"I">>) ELSE BAD
      [] b = "clng" -> IF Num(x) THEN OK(1, <<"L">>) ELSE BAD
      [] b = "int" -> IF Num(x) THEN OK(1, <<"L">>) ELSE BAD
      [] b = "jz" -> IF x = "I" THEN OK(1, <<>>) ELSE BAD
      [] b = "call" -> OK(0, <<"L">>)
      [] b = "ijmp" -> IF x = "L" THEN OK(1, <<>>) ELSE BAD
      [] b = "ret" -> IF x = "L" THEN OK(1, <<>>) ELSE BAD
      [] b = "retv" -> IF Has(top, 2) /\ y = "L" THEN OK(2, <<"*retv">>) ELSE BAD
      [] b = "frame" -> IF x = "L" /\ Has(top, 1 + ins.a[1]) THEN OK(1 + ins.a[1], <<"L">>) ELSE BAD
      [] b \in {"readl", "readg", "readidxl", "readidxg"} -> OK(0, <<t1>>)
      [] b \in {"storel", "storeg", "storeidxl", "storeidxg"} -> IF Has(top, 1) THEN OK(1, <<>>) ELSE BAD
      [] b \in {"pushrefl", "pushrefg"} -> OK(0, <<"R">>)
      [] b = "deref" -> IF x = "R" THEN OK(1, <<t1>>) ELSE BAD
      [] b = "storeref" -> IF x = "R" /\ Has(top, 2) THEN OK(2, <<>>) ELSE BAD
      [] b = "refidx" -> IF Intg(x) /\ y = "R" THEN OK(2, <<"R">>) ELSE BAD
      [] b \in {"initarrl", "initarrg"} ->
            IF Has(top, 2 * ins.a[2]) /\ \A i \in 1..(2 * ins.a[2]) : top[i] = "L" THEN OK(2 * ins.a[2], <<>>) ELSE BAD
      [] b = "allocarr" ->
            IF Has(top, 2 * ins.a[1]) /\ \A i \in 1..(2 * ins.a[1]) : top[i] = "L" THEN OK(2 * ins.a[1], <<"R">>) ELSE BAD
      [] b = "arridx" ->
            IF x = "R" /\ Has(top, 1 + ins.a[1]) /\ \A i \in 2..(1 + ins.a[1]) : top[i] = "L" THEN OK(1 + ins.a[1], <<"R">>) ELSE BAD
      [] b \in {"lbound", "ubound"} -> Sig1(top, <<"L", "R">>, <<"L">>)
      [] b = "asc" -> Sig1(top, <<"T">>, <<"I">>)
      [] b = "chr" -> Sig1(top, <<"I">>, <<"T">>)
      [] b = "strlen" -> Sig1(top, <<"T">>, <<"L">>)
      [] b \in {"strleft", "strright"} -> Sig1(top, <<"I", "T">>, <<"T">>)
      [] b = "strmid" -> IF x \in {"I", "L"} /\ y = "I" /\ z = "T" THEN OK(3, <<"T">>) ELSE BAD
      [] b = "strfind" -> Sig1(top, <<"T", "T", "L">>, <<"L">>)
      [] b = "strrep" -> IF x \in {"I", "T"} /\ y = "I" THEN OK(2, <<"T">>) ELSE BAD
      [] b = "space" -> Sig1(top, <<"I">>, <<"T">>)
      [] b \in {"lcase", "ucase", "ltrim", "rtrim"} -> Sig1(top, <<"T">>, <<"T">>)
      [] b = "ntos" -> IF Num(x) THEN OK(1, <<"T">>) ELSE BAD
      [] b = "sdbl" -> Sig1(top, <<"T">>, <<"D">>)
      [] b = "errget" -> OK(0, <<"I">>)
      [] b = "io" -> IoSig(ins.dev, ins.dop, top, n)
      [] OTHER -> BAD

\* traps that only faulty code (not a faulty program) can provoke
MachineFaults == {"INVALID_OP_CODE", "STACK_EMPTY", "INVALID_LOCAL_VAR_IDX", "INVALID_GLOBAL_VAR_IDX",
                  "TYPE_MISMATCH", "NULL_REFERENCE", "UNINITIALIZED_MEM"}
=============================================================================
